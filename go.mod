module verif

go 1.21

require github.com/dave/jennifer v0.0.0

replace github.com/dave/jennifer => /repo
