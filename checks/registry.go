// Package checks holds one checker per property. Each explores a bounded space of behaviours of
// the real jennifer implementation exhaustively and judges every element with an oracle that is
// independent of jennifer.
package checks

import (
	"context"
	"encoding/json"
	"os/exec"
	"sort"
	"time"

	"verif/internal/ev"
)

// Check is one property checker.
type Check struct {
	ID      string
	Level   string // evidence level: exploration | fault_enumeration | model_checking
	Variant string // build variant needed: "plain", "instr" (overlay-instrumented jennifer)
	Run     func(r *ev.Recorder)
	// Replay re-executes one recorded case on the current tree; holds=false means the violation
	// reproduces.
	Replay func(c json.RawMessage) (holds bool, detail string)
}

var registry = map[string]*Check{}

func register(c *Check) {
	if c.Variant == "" {
		c.Variant = "plain"
	}
	registry[c.ID] = c
}

// Get returns the check for a property id.
func Get(id string) *Check { return registry[id] }

// IDs lists registered property ids.
func IDs() []string {
	var ids []string
	for id := range registry {
		ids = append(ids, id)
	}
	sort.Strings(ids)
	return ids
}

// shardCommand runs a worker process with a generous time limit, so that a tree under test that
// makes a worker spin forever ends as a harness failure instead of hanging the check.
func shardCommand(bin string, args ...string) *exec.Cmd {
	ctx, cancel := context.WithTimeout(context.Background(), 50*time.Minute)
	_ = cancel // the process ends with the check
	return exec.CommandContext(ctx, bin, args...)
}
