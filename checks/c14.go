package checks

import (
	"bytes"
	"encoding/json"
	"fmt"
	"math"
	"reflect"
	"sort"
	"strings"
	"time"

	"github.com/dave/jennifer/jen"

	"verif/internal/ev"
	"verif/internal/jh"
)

// C14: all forms of a construct are equivalent; callbacks run once, at build time.

func init() {
	register(&Check{ID: "C14", Level: "exploration", Run: runC14, Replay: replayC14})
}

var (
	groupType    = reflect.TypeOf(&jen.Group{})
	stmtFuncType = reflect.TypeOf(func(*jen.Statement) {})
	dictFuncType = reflect.TypeOf(func(jen.Dict) {})
	litFuncType  = reflect.TypeOf(func() interface{} { return nil })
	runeFuncType = reflect.TypeOf(func() rune { return 0 })
	byteFuncType = reflect.TypeOf(func() byte { return 0 })
	tagMapType   = reflect.TypeOf(map[string]string{})
	optionsType  = reflect.TypeOf(jen.Options{})
	emptyIface   = reflect.TypeOf((*interface{})(nil)).Elem()
)

// argVal is one synthesised argument: a fresh value every time mk is called, plus the counter
// a callback argument increments.
type argVal struct {
	desc string
	mk   func(count *int) reflect.Value
}

var c14Lists = []struct {
	desc string
	mk   func() []jen.Code
}{
	{"", func() []jen.Code { return nil }},
	{"Id(a)", func() []jen.Code { return []jen.Code{jen.Id("a")} }},
	{"Id(a), Lit(1)", func() []jen.Code { return []jen.Code{jen.Id("a"), jen.Lit(1)} }},
	{"Qual(x/y,Z), Null(), Id(b)", func() []jen.Code { return []jen.Code{jen.Qual("x/y", "Z"), jen.Null(), jen.Id("b")} }},
	{"Qual(w/y,Z), Id(c).Op(+).Lit(2)", func() []jen.Code { return []jen.Code{jen.Qual("w/y", "Z"), jen.Id("c").Op("+").Lit(2)} }},
	{"nil, Id(a), Add(nil).Id(b)", func() []jen.Code { return []jen.Code{nil, jen.Id("a"), jen.Add(nil).Id("b")} }},
	{"Id(a).Clone(), Add(Id(b))", func() []jen.Code { return []jen.Code{jen.Id("a").Clone(), jen.Add(jen.Id("b"))} }},
	{"Id(a), Add()", func() []jen.Code { return []jen.Code{jen.Id("a"), jen.Add()} }},
	{"&Statement{}", func() []jen.Code { return []jen.Code{&jen.Statement{}} }},
	{"Dict{}, Id(a), Dict{Null(): Lit(1)}", func() []jen.Code { return []jen.Code{jen.Dict{}, jen.Id("a"), jen.Dict{jen.Null(): jen.Lit(1)}} }},
}

// argDomain returns the tiny domain of values for a parameter type (nil = cannot synthesise).
func argDomain(t reflect.Type, variadic bool, method string, wild bool) []argVal {
	val := func(desc string, v any) argVal {
		return argVal{desc, func(*int) reflect.Value { return reflect.ValueOf(v) }}
	}
	switch {
	case variadic && t.Elem() == codeType:
		var out []argVal
		for _, l := range c14Lists {
			l := l
			out = append(out, argVal{l.desc, func(*int) reflect.Value {
				items := l.mk()
				if items == nil {
					items = []jen.Code{}
				}
				return reflect.ValueOf(items)
			}})
		}
		return out
	case variadic && t.Elem() == emptyIface:
		return []argVal{val("", []interface{}{}), val("7", []interface{}{7}), {"Formatter", func(count *int) reflect.Value {
			return reflect.ValueOf([]interface{}{c14Stringer{count}})
		}}}
	case variadic:
		return nil
	case t == codeType:
		return []argVal{
			{"Id(c0)", func(*int) reflect.Value { return reflect.ValueOf(jen.Id("c0")) }},
			{"Qual(x/y,Q).Call()", func(*int) reflect.Value { return reflect.ValueOf(jen.Qual("x/y", "Q").Call()) }},
			{"Id(c1).Clone()", func(*int) reflect.Value { return reflect.ValueOf(jen.Id("c1").Clone()) }},
		}
	case t.Kind() == reflect.String && wild:
		// C02: nonsensical text too
		return []argVal{val(`"a"`, "a"), val(`""`, ""), val(`"+"`, "+"), val(`"{"`, "{"), val(`"\n"`, "\n"), val(`"//x"`, "//x"), val(`"0X1F"`, "0X1F"), val(`"x/y"`, "x/y"), val(`")"`, ")"), val(`"*/"`, "*/"), val(`"//line a.go:2\n"`, "//line a.go:2\n"), val(`"x/3"`, "x/3")}
	case t.Kind() == reflect.String:
		switch method {
		case "Op":
			return []argVal{val(`"+"`, "+"), val(`"*"`, "*")}
		case "Comment", "Commentf":
			return []argVal{val(`"c"`, "c"), val(`"l1\nl2"`, "l1\nl2"), val(`"%d"`, "n %d")}
		case "Qual":
			return []argVal{val(`"x/y"`, "x/y"), val(`"w/y"`, "w/y")}
		}
		return []argVal{val(`"a"`, "a"), val(`"b0"`, "b0")}
	case t == groupFunc:
		var out []argVal
		for _, l := range c14Lists {
			l := l
			out = append(out, argVal{"func(g){" + l.desc + "}", func(count *int) reflect.Value {
				return reflect.ValueOf(func(g *jen.Group) {
					*count++
					for _, it := range l.mk() {
						g.Add(it)
					}
				})
			}})
		}
		return out
	case t == stmtFuncType:
		return []argVal{{"func(s){s.Id(d)}", func(count *int) reflect.Value {
			return reflect.ValueOf(func(s *jen.Statement) { *count++; s.Id("d") })
		}}, {"func(s){}", func(count *int) reflect.Value {
			return reflect.ValueOf(func(s *jen.Statement) { *count++ })
		}}}
	case t == litFuncType:
		return []argVal{{"func(){return 5}", func(count *int) reflect.Value {
			return reflect.ValueOf(func() interface{} { *count++; return 5 })
		}}, {"func(){return \"s\"}", func(count *int) reflect.Value {
			return reflect.ValueOf(func() interface{} { *count++; return "s" })
		}}, {"func(){n++; return n}", func(count *int) reflect.Value {
			n := 0
			return reflect.ValueOf(func() interface{} { *count++; n++; return n })
		}}}
	case t == runeFuncType:
		return []argVal{{"func(){return 'r'}", func(count *int) reflect.Value {
			return reflect.ValueOf(func() rune { *count++; return 'r' })
		}}}
	case t == byteFuncType:
		return []argVal{{"func(){return 9}", func(count *int) reflect.Value {
			return reflect.ValueOf(func() byte { *count++; return 9 })
		}}}
	case t == tagMapType:
		return []argVal{
			{"nil", func(*int) reflect.Value { return reflect.ValueOf(map[string]string(nil)) }},
			{"{}", func(*int) reflect.Value { return reflect.ValueOf(map[string]string{}) }},
			{`{"a":"1"}`, func(*int) reflect.Value { return reflect.ValueOf(map[string]string{"a": "1"}) }},
			{`{"a":"1","b":"2"}`, func(*int) reflect.Value { return reflect.ValueOf(map[string]string{"a": "1", "b": "2"}) }},
		}
	case t == optionsType:
		return []argVal{val("Options{( , )}", jen.Options{Open: "(", Close: ")", Separator: ","}), val("Options{multi}", jen.Options{Open: "{", Close: "}", Separator: ";", Multi: true})}
	case t == emptyIface:
		return []argVal{val("1", 1), val(`"s"`, "s"), val("1.5", 1.5), val("true", true), val("int8(3)", int8(3)), val("2i", 2i)}
	case t.Kind() == reflect.Int32:
		return []argVal{val("'q'", 'q'), val("'\\n'", '\n')}
	case t.Kind() == reflect.Uint8:
		return []argVal{val("7", byte(7))}
	}
	return nil
}

// values of named types (outside Lit's contract: whatever Lit does with them, LitFunc does too)
type c14Level int
type c14Name string
type c14Ratio float64

// c14RetainedGroup: the group a ...Func callback was handed is the group that ends up in the
// statement - items added through a retained handle after the constructing call returned appear,
// exactly as in the variadic form built with those items.
func c14RetainedGroup(r *ev.Recorder) {
	for i := 0; i < stmtType.NumMethod(); i++ {
		m := stmtType.Method(i)
		if !strings.HasSuffix(m.Name, "Func") || m.Type.NumIn() < 2 || m.Type.In(m.Type.NumIn()-1) != groupFunc {
			continue
		}
		base, ok := stmtType.MethodByName(strings.TrimSuffix(m.Name, "Func"))
		if !ok || !base.Type.IsVariadic() {
			continue
		}
		for oi, opt := range c13Options {
			custom := m.Type.NumIn() == 3
			if !custom && oi > 0 {
				break
			}
			var pre []reflect.Value
			if custom {
				pre = []reflect.Value{reflect.ValueOf(opt)}
			}
			for form := 0; form < 3; form++ {
				var kept *jen.Group
				inner := ""
				cb := reflect.ValueOf(func(g *jen.Group) {
					g.Add(jen.Id("a"))
					kept = g
					inner = jh.Catch(func() (string, error) { return g.GoString(), nil }).Key()
				})
				var st *jen.Statement
				switch form {
				case 0:
					st = &jen.Statement{}
					call(reflect.ValueOf(st).MethodByName(m.Name), append(append([]reflect.Value(nil), pre...), cb), false)
				case 1:
					if fn, ok := apiFuncs[m.Name]; ok {
						rv, p := call(reflect.ValueOf(fn), append(append([]reflect.Value(nil), pre...), cb), false)
						if p == nil {
							st, _ = rv.Interface().(*jen.Statement)
						}
					}
				case 2:
					st = jen.CustomFunc(jen.Options{}, func(g *jen.Group) {
						call(reflect.ValueOf(g).MethodByName(m.Name), append(append([]reflect.Value(nil), pre...), cb), false)
					})
				}
				if st == nil || kept == nil {
					continue
				}
				kept.Add(jen.Id("b"))
				want := &jen.Statement{}
				call(reflect.ValueOf(want).MethodByName(base.Name), append(append([]reflect.Value(nil), pre...), reflect.ValueOf([]jen.Code{jen.Id("a"), jen.Id("b")})), true)
				wantInner := &jen.Statement{}
				call(reflect.ValueOf(wantInner).MethodByName(base.Name), append(append([]reflect.Value(nil), pre...), reflect.ValueOf([]jen.Code{jen.Id("a")})), true)
				r.Eval(2)
				desc := fmt.Sprintf("%s (form %d, options %d): item added through the retained group after the call", m.Name, form, oi)
				r.Distinct(desc)
				if a, b := jh.Raw(st), jh.Raw(want); a.Key() != b.Key() {
					r.Violate(ev.Violation{Signature: "c14:retained-group:" + base.Name, What: fmt.Sprintf("%s: %q, %s(a, b) renders %q", desc, a, base.Name, b), Case: ev.JSON(c14Case{Kind: "hoisting", Name: m.Name, Desc: desc})})
				}
				if wi := jh.Catch(func() (string, error) { return wantInner.GoString(), nil }).Key(); form == 0 && inner != wi {
					r.Violate(ev.Violation{Signature: "c14:group-gostring-inside-callback:" + base.Name, What: fmt.Sprintf("%s: inside the callback the group prints %q, %s(a) prints %q", m.Name, inner, base.Name, wi), Case: ev.JSON(c14Case{Kind: "hoisting", Name: m.Name, Desc: desc})})
				}
			}
		}
	}
}

// c14Stringer is a format argument that formats itself (fmt.Formatter): user code run by whoever
// formats the arguments; it counts its calls.
type c14Stringer struct{ count *int }

func (s c14Stringer) Format(f fmt.State, verb rune) { *s.count++; fmt.Fprint(f, "stringer") }

// construct is one exported builder present as *Statement method.
type c14Construct struct {
	name    string
	params  []reflect.Type
	isVar   bool
	domains [][]argVal
}

var c14Skip = map[string]bool{"Clone": true}

func c14Constructs() (cs []c14Construct, missing []string) { return apiConstructs(false) }

func apiConstructs(wild bool) (cs []c14Construct, missing []string) {
	for i := 0; i < stmtType.NumMethod(); i++ {
		m := stmtType.Method(i)
		mt := m.Type
		if mt.NumOut() != 1 || mt.Out(0) != stmtType || c14Skip[m.Name] {
			continue
		}
		c := c14Construct{name: m.Name, isVar: mt.IsVariadic()}
		ok := true
		for p := 1; p < mt.NumIn(); p++ {
			c.params = append(c.params, mt.In(p))
			d := argDomain(mt.In(p), mt.IsVariadic() && p == mt.NumIn()-1, m.Name, wild)
			if d == nil {
				ok = false
			}
			c.domains = append(c.domains, d)
		}
		if !ok {
			missing = append(missing, m.Name+": cannot synthesise arguments for "+mt.String())
			continue
		}
		cs = append(cs, c)
	}
	sort.Slice(cs, func(i, j int) bool { return cs[i].name < cs[j].name })
	return
}

// combos enumerates the cartesian product of the domains (indices).
func combos(domains [][]argVal) [][]int {
	out := [][]int{{}}
	for _, d := range domains {
		var next [][]int
		for _, c := range out {
			for i := range d {
				next = append(next, append(append([]int(nil), c...), i))
			}
		}
		out = next
	}
	return out
}

func (c c14Construct) args(combo []int, count *int) []reflect.Value {
	var out []reflect.Value
	for i, k := range combo {
		out = append(out, c.domains[i][k].mk(count))
	}
	return out
}

func (c c14Construct) describe(combo []int) string {
	var ds []string
	for i, k := range combo {
		ds = append(ds, c.domains[i][k].desc)
	}
	return c.name + "(" + strings.Join(ds, "; ") + ")"
}

func call(fn reflect.Value, args []reflect.Value, variadic bool) (out reflect.Value, panicked any) {
	defer func() {
		if r := recover(); r != nil {
			panicked = r
		}
	}()
	var res []reflect.Value
	if variadic {
		res = fn.CallSlice(args)
	} else {
		res = fn.Call(args)
	}
	return res[0], nil
}

// three render entry points of a statement must agree
func c14Entries(s *jen.Statement) string {
	gs := jh.Catch(func() (string, error) { return s.GoString(), nil })
	rd := jh.Catch(func() (string, error) { var b bytes.Buffer; err := s.Render(&b); return b.String(), err })
	rf := jh.Catch(func() (string, error) {
		var b bytes.Buffer
		err := s.RenderWithFile(&b, jen.NewFile(""))
		return b.String(), err
	})
	norm := func(o jh.Outcome) string {
		if !o.OK() {
			return "FAIL"
		}
		return "OK:" + o.Out
	}
	if norm(gs) != norm(rd) || norm(rd) != norm(rf) {
		return fmt.Sprintf("GoString %q, Render %q, RenderWithFile(fresh File) %q", norm(gs), norm(rd), norm(rf))
	}
	return ""
}

var c14GroupOpts = jen.Options{Open: "<", Close: ">", Separator: ","}

// c14One checks every form of one construct with one argument combination; returns problems.
func c14One(c c14Construct, combo []int) (problems []string, evals int) {
	desc := c.describe(combo)
	bad := func(format string, a ...any) { problems = append(problems, desc+": "+fmt.Sprintf(format, a...)) }
	var counts [6]int
	// F2: method on a fresh statement
	s2 := &jen.Statement{}
	r2, p2 := call(reflect.ValueOf(s2).MethodByName(c.name), c.args(combo, &counts[1]), c.isVar)
	evals++
	if p2 != nil {
		// a construct that panics at build time (e.g. Lit of an unsupported type) must do so in every form
		r1, p1 := reflect.Value{}, any(nil)
		if fn, ok := apiFuncs[c.name]; ok {
			r1, p1 = call(reflect.ValueOf(fn), c.args(combo, &counts[0]), c.isVar)
			_ = r1
			if p1 == nil {
				bad("method form panics (%v) but the function form does not", p2)
			}
		}
		return
	}
	if r2.Pointer() != reflect.ValueOf(s2).Pointer() {
		bad("the *Statement method does not return its receiver")
	}
	base := jh.Raw(s2)
	// F1: package function
	fn, ok := apiFuncs[c.name]
	if !ok {
		bad("no package-level function form")
	} else {
		r1, p1 := call(reflect.ValueOf(fn), c.args(combo, &counts[0]), c.isVar)
		evals++
		if p1 != nil {
			bad("function form panics: %v", p1)
		} else if s1, ok := r1.Interface().(*jen.Statement); !ok {
			bad("function form does not return *Statement")
		} else {
			if o := jh.Raw(s1); o.Key() != base.Key() {
				bad("function form renders %q, method form %q", o, base)
			}
			if msg := c14Entries(s1); msg != "" {
				bad("render entry points disagree: %s", msg)
			}
			evals += 3
		}
	}
	// F3: method on a non-empty statement == Add of the function form's result
	if ok {
		s3 := jen.Id("pre")
		_, p3 := call(reflect.ValueOf(s3).MethodByName(c.name), c.args(combo, &counts[2]), c.isVar)
		r1, _ := call(reflect.ValueOf(fn), c.args(combo, &counts[3]), c.isVar)
		evals++
		if p3 != nil {
			bad("method form on a non-empty statement panics: %v", p3)
		} else if s1, ok := r1.Interface().(*jen.Statement); ok {
			want := jh.Raw(jen.Id("pre").Add(s1))
			if got := jh.Raw(s3); got.Key() != want.Key() {
				bad("Id(pre).%s renders %q, Id(pre).Add(%s) renders %q", c.name, got, c.name, want)
			}
		}
	}
	// F4: Group method: appends exactly one item, identical to the returned statement
	gm, okg := groupType.MethodByName(c.name)
	if !okg {
		bad("no *Group method form")
	} else {
		var grp *jen.Group
		var ret *jen.Statement
		var before int
		var pg any
		outer := jen.CustomFunc(c14GroupOpts, func(g *jen.Group) {
			g.Id("g0")
			grp = g
			before = reflect.ValueOf(g).Elem().FieldByName("items").Len()
			rv, p := call(reflect.ValueOf(g).MethodByName(gm.Name), c.args(combo, &counts[4]), c.isVar)
			pg = p
			if p == nil {
				ret, _ = rv.Interface().(*jen.Statement)
			}
		})
		// two consecutive calls of the group form append two distinct statements
		for _, opts := range []jen.Options{c14GroupOpts, {Open: "{", Close: "}", Separator: ";", Multi: true}} {
			if pg != nil {
				break
			}
			var r1, r2 *jen.Statement
			var n0, n2 int
			twice := jen.CustomFunc(opts, func(g *jen.Group) {
				n0 = reflect.ValueOf(g).Elem().FieldByName("items").Len()
				a, _ := call(reflect.ValueOf(g).MethodByName(gm.Name), c.args(combo, new(int)), c.isVar)
				b, _ := call(reflect.ValueOf(g).MethodByName(gm.Name), c.args(combo, new(int)), c.isVar)
				r1, _ = a.Interface().(*jen.Statement)
				r2, _ = b.Interface().(*jen.Statement)
				n2 = reflect.ValueOf(g).Elem().FieldByName("items").Len()
			})
			if n2 != n0+2 || r1 == r2 {
				bad("calling the *Group method twice appended %d items (want 2) / returned the same statement twice: %v", n2-n0, r1 == r2)
			} else if ok {
				a, _ := call(reflect.ValueOf(fn), c.args(combo, new(int)), c.isVar)
				b, _ := call(reflect.ValueOf(fn), c.args(combo, new(int)), c.isVar)
				if sa, ok1 := a.Interface().(*jen.Statement); ok1 {
					if sb, ok2 := b.Interface().(*jen.Statement); ok2 {
						if got, want := jh.Raw(twice), jh.Raw(jen.Custom(opts, sa, sb)); got.Key() != want.Key() {
							bad("the *Group method called twice renders %q, Custom(%s(...), %s(...)) renders %q", got, c.name, c.name, want)
						}
					}
				}
			}
		}
		evals++
		if pg != nil {
			bad("group form panics: %v", pg)
		} else {
			items := reflect.ValueOf(grp).Elem().FieldByName("items")
			if items.Len() != before+1 {
				bad("the *Group method appended %d items to the group, want 1", items.Len()-before)
			} else if ret == nil || items.Index(before).Elem().Pointer() != reflect.ValueOf(ret).Pointer() {
				bad("the *Group method does not return the statement it appended")
			}
			if ok {
				r1, _ := call(reflect.ValueOf(fn), c.args(combo, &counts[5]), c.isVar)
				if s1, ok := r1.Interface().(*jen.Statement); ok {
					want := jh.Raw(jen.Custom(c14GroupOpts, jen.Id("g0"), s1))
					if got := jh.Raw(outer); got.Key() != want.Key() {
						bad("group form renders %q, Custom(Id(g0), %s(...)) renders %q", got, c.name, want)
					}
				}
			}
			// the returned statement is a NEW one: appending to it must not change any argument
			if ret != nil {
				args := c.args(combo, new(int))
				var stmts []*jen.Statement
				var texts []string
				for _, a := range args {
					if a.Kind() == reflect.Slice && a.Type().Elem() == codeType {
						for i := 0; i < a.Len(); i++ {
							if st, ok := a.Index(i).Interface().(*jen.Statement); ok && st != nil {
								stmts = append(stmts, st)
							}
						}
					} else if st, ok := a.Interface().(*jen.Statement); ok && st != nil {
						stmts = append(stmts, st)
					}
				}
				for _, st := range stmts {
					texts = append(texts, jh.Raw(st).Key())
				}
				var g2 *jen.Group
				jen.CustomFunc(c14GroupOpts, func(g *jen.Group) { g2 = g })
				rv, p := call(reflect.ValueOf(g2).MethodByName(gm.Name), args, c.isVar)
				if p == nil {
					if st, ok := rv.Interface().(*jen.Statement); ok && st != nil {
						st.Id("tail")
						for i, a := range stmts {
							if now := jh.Raw(a).Key(); now != texts[i] {
								bad("appending to the statement returned by the group form changed an argument: %q became %q", texts[i], now)
							}
						}
					}
				}
			}
		}
	}
	// callbacks: exactly once at build time, never during rendering
	hasCallback := false
	for _, t := range c.params {
		if t.Kind() == reflect.Func {
			hasCallback = true
		}
	}
	if !hasCallback {
		// arguments that call back into user code (a fmt.Stringer among format arguments)
		probe := 0
		ps := &jen.Statement{}
		call(reflect.ValueOf(ps).MethodByName(c.name), c.args(combo, &probe), c.isVar)
		jh.Raw(ps)
		hasCallback = probe > 0
	}
	if hasCallback {
		n := 0
		s := &jen.Statement{}
		call(reflect.ValueOf(s).MethodByName(c.name), c.args(combo, &n), c.isVar)
		if n != 1 {
			bad("callback ran %d times inside the constructing call, want 1", n)
		}
		jh.Raw(s)
		jh.Raw(s)
		jh.Catch(func() (string, error) { return s.GoString(), nil })
		if n != 1 {
			bad("callback ran again during rendering (count %d)", n)
		}
		for i, k := range counts {
			if k > 1 {
				bad("callback ran %d times in form %d", k, i)
			}
		}
		evals += 3
	}
	return
}

// lateMutate changes, in place, every argument a construct may have kept by reference: a token is
// appended to every *Statement (bare or as an item of a ...Code list; a Null() item becomes a real
// one), and a key is added to every non-nil tag map. It reports whether anything was changed.
// mode 1 changes without changing any size: the values of every tag map are replaced (statements
// are left alone: taking a token away could remove a qualified reference, and a File rightly keeps
// declaring an import it has shown once).
func lateMutate(args []reflect.Value, mode int) bool {
	changed := false
	stmt := func(v any) {
		if st, ok := v.(*jen.Statement); ok && st != nil {
			if mode == 1 {
				return
			}
			st.Id("late")
			changed = true
		}
	}
	for _, a := range args {
		switch {
		case a.Kind() == reflect.Slice && a.Type().Elem() == codeType:
			for i := 0; i < a.Len(); i++ {
				stmt(a.Index(i).Interface())
			}
		case a.Type() == tagMapType:
			if mode == 1 {
				for _, k := range a.MapKeys() {
					a.SetMapIndex(k, reflect.ValueOf("replaced"))
					changed = true
				}
			} else if !a.IsNil() {
				a.SetMapIndex(reflect.ValueOf("late"), reflect.ValueOf("x"))
				changed = true
			}
		case a.Type() == codeType || a.Type() == stmtType:
			stmt(a.Interface())
		}
	}
	return changed
}

// c14LateArgs: the arguments are changed after the constructing call (lateMutate); the function
// form, the method form and the Group form must then still render alike - whether a construct
// keeps its arguments by reference or copies them, all its forms do the same.
func c14LateArgs(c c14Construct, combo []int) string {
	for mode := 0; mode < 2; mode++ {
		if msg := c14LateArgsMode(c, combo, mode); msg != "" {
			return msg
		}
	}
	return ""
}

func c14LateArgsMode(c c14Construct, combo []int, mode int) string {
	fn, ok := apiFuncs[c.name]
	if !ok {
		return ""
	}
	if _, ok := groupType.MethodByName(c.name); !ok {
		return ""
	}
	var outs [3]string
	for form := 0; form < 3; form++ {
		args := c.args(combo, new(int))
		var st *jen.Statement
		var p any
		switch form {
		case 0:
			var rv reflect.Value
			rv, p = call(reflect.ValueOf(fn), args, c.isVar)
			if p == nil {
				st, _ = rv.Interface().(*jen.Statement)
			}
		case 1:
			st = &jen.Statement{}
			_, p = call(reflect.ValueOf(st).MethodByName(c.name), args, c.isVar)
		case 2:
			st = jen.CustomFunc(jen.Options{}, func(g *jen.Group) {
				_, p = call(reflect.ValueOf(g).MethodByName(c.name), args, c.isVar)
			})
		}
		if p != nil || st == nil {
			return ""
		}
		if !lateMutate(args, mode) {
			return ""
		}
		outs[form] = jh.Raw(st).Key()
	}
	if outs[0] != outs[1] || outs[1] != outs[2] {
		return fmt.Sprintf("after the arguments were changed following the call: function form %q, method form %q, Group form %q", outs[0], outs[1], outs[2])
	}
	return ""
}

// c14FuncVariant: XFunc(callback adding the items) == X(items...).
func c14FuncVariants(r *ev.Recorder) {
	for i := 0; i < stmtType.NumMethod(); i++ {
		m := stmtType.Method(i)
		if !strings.HasSuffix(m.Name, "Func") || m.Type.NumIn() < 2 || m.Type.In(m.Type.NumIn()-1) != groupFunc {
			continue
		}
		base, ok := stmtType.MethodByName(strings.TrimSuffix(m.Name, "Func"))
		if !ok || !base.Type.IsVariadic() {
			continue
		}
		for _, l := range c14Lists {
			for oi, opt := range c13Options {
				custom := m.Type.NumIn() == 3
				if !custom && oi > 0 {
					break
				}
				var pre []reflect.Value
				if custom {
					pre = []reflect.Value{reflect.ValueOf(opt)}
				}
				items := l.mk()
				if items == nil {
					items = []jen.Code{}
				}
				s1 := &jen.Statement{}
				_, p1 := call(reflect.ValueOf(s1).MethodByName(base.Name), append(append([]reflect.Value(nil), pre...), reflect.ValueOf(items)), true)
				s2 := &jen.Statement{}
				_, p2 := call(reflect.ValueOf(s2).MethodByName(m.Name), append(append([]reflect.Value(nil), pre...), reflect.ValueOf(func(g *jen.Group) {
					for _, it := range l.mk() {
						g.Add(it)
					}
				})), false)
				r.Eval(2)
				desc := fmt.Sprintf("%s(func(g){%s}) vs %s(%s)", m.Name, l.desc, base.Name, l.desc)
				r.Distinct(desc)
				a, b := jh.Raw(s1), jh.Raw(s2)
				if (p1 == nil) != (p2 == nil) || a.Key() != b.Key() {
					r.Violate(ev.Violation{Signature: "c14:func-variant:" + base.Name, What: fmt.Sprintf("%s: %q vs %q (panics: %v / %v)", desc, b, a, p2, p1),
						Case: ev.JSON(c14Case{Kind: "funcvariant", Name: m.Name, Desc: desc})})
				}
			}
		}
	}
}

// c14SharedSlices: one caller-owned argument slice (with a nil in the middle) used for the
// variadic form, then for the ...Func form, then for the variadic form again.
func c14SharedSlices(r *ev.Recorder) {
	for i := 0; i < stmtType.NumMethod(); i++ {
		m := stmtType.Method(i)
		if !m.Type.IsVariadic() || m.Type.NumIn() != 2 || m.Type.In(1).Elem() != codeType {
			continue
		}
		mk := func() []jen.Code { return []jen.Code{jen.Id("a"), nil, jen.Id("b"), jen.Id("c")} }
		want := jh.Raw(func() *jen.Statement {
			s := &jen.Statement{}
			call(reflect.ValueOf(s).MethodByName(m.Name), []reflect.Value{reflect.ValueOf(mk())}, true)
			return s
		}())
		args := mk()
		var outs []jh.Outcome
		for k := 0; k < 2; k++ {
			s := &jen.Statement{}
			call(reflect.ValueOf(s).MethodByName(m.Name), []reflect.Value{reflect.ValueOf(args)}, true)
			outs = append(outs, jh.Raw(s))
			if fm, ok := stmtType.MethodByName(m.Name + "Func"); ok && fm.Type.In(1) == groupFunc {
				s2 := &jen.Statement{}
				call(reflect.ValueOf(s2).MethodByName(fm.Name), []reflect.Value{reflect.ValueOf(func(g *jen.Group) {
					for _, it := range args {
						g.Add(it)
					}
				})}, false)
				outs = append(outs, jh.Raw(s2))
			}
		}
		r.Eval(int64(len(outs)))
		desc := m.Name + "(args...) / " + m.Name + "Func built repeatedly from one caller-owned slice [a, nil, b, c]"
		r.Distinct(desc)
		for k, o := range outs {
			if o.Key() != want.Key() {
				r.Violate(ev.Violation{Signature: "c14:shared-slice:" + m.Name, What: fmt.Sprintf("%s: build #%d renders %q, want %q", desc, k+1, o, want), Case: ev.JSON(c14Case{Kind: "sharedslice", Name: m.Name, Desc: desc})})
				break
			}
		}
	}
}

// c14SpareCapacity: the argument slice has spare capacity, the result of each form is extended by
// a chained call, and the caller goes on appending to its slice: nothing may leak either way.
func c14SpareCapacity(r *ev.Recorder) {
	for i := 0; i < stmtType.NumMethod(); i++ {
		m := stmtType.Method(i)
		if !m.Type.IsVariadic() || m.Type.NumIn() != 2 || m.Type.In(1).Elem() != codeType {
			continue
		}
		forms := []string{"function", "method", "group"}
		for fi, form := range forms {
			mk := func(shared bool) []string {
				args := append(make([]jen.Code, 0, 8), jen.Id("a"), jen.Id("b"))
				build := func(tail string) *jen.Statement {
					a := args
					if !shared {
						a = append([]jen.Code(nil), args...)
					}
					var s *jen.Statement
					switch fi {
					case 0:
						fn, ok := apiFuncs[m.Name]
						if !ok {
							return nil
						}
						rv, _ := call(reflect.ValueOf(fn), []reflect.Value{reflect.ValueOf(a)}, true)
						s, _ = rv.Interface().(*jen.Statement)
					case 1:
						s = &jen.Statement{}
						call(reflect.ValueOf(s).MethodByName(m.Name), []reflect.Value{reflect.ValueOf(a)}, true)
					default:
						jen.CustomFunc(c14GroupOpts, func(g *jen.Group) {
							rv, _ := call(reflect.ValueOf(g).MethodByName(m.Name), []reflect.Value{reflect.ValueOf(a)}, true)
							s, _ = rv.Interface().(*jen.Statement)
						})
					}
					if s != nil {
						s.Id(tail)
					}
					return s
				}
				s1 := build("x")
				s2 := build("w")
				args = append(args, jen.Id("z"))
				s3 := build("y")
				var out []string
				for _, s := range []*jen.Statement{s1, s2, s3} {
					if s == nil {
						out = append(out, "<nil>")
					} else {
						out = append(out, jh.Raw(s).Key())
					}
				}
				return out
			}
			got, want := mk(true), mk(false)
			r.Eval(2)
			desc := fmt.Sprintf("%s %s form built three times from one argument slice with spare capacity, each result extended by .Id(..)", m.Name, form)
			r.Distinct(desc)
			if strings.Join(got, "|") != strings.Join(want, "|") {
				r.Violate(ev.Violation{Signature: "c14:spare-capacity:" + m.Name, What: fmt.Sprintf("%s: %q, with private copies of the slice %q", desc, got, want), Case: ev.JSON(c14Case{Kind: "sparecap", Name: m.Name, Desc: desc})})
			}
		}
	}
}

// c14Hoisting: a ...Func construct called as a Group method whose callback also emits into the
// enclosing group must render like g.Add(XFunc(f)) - the callback runs before the new statement
// is appended.
func c14Hoisting(r *ev.Recorder) {
	for i := 0; i < groupType.NumMethod(); i++ {
		m := groupType.Method(i)
		if !strings.HasSuffix(m.Name, "Func") || m.Type.NumIn() != 2 || m.Type.In(1) != groupFunc {
			continue
		}
		fn, ok := apiFuncs[m.Name]
		if !ok {
			continue
		}
		build := func(viaGroup bool) jh.Outcome {
			return jh.Raw(jen.CustomFunc(c14GroupOpts, func(g *jen.Group) {
				cb := func(inner *jen.Group) {
					g.Id("hoisted")
					inner.Id("x")
				}
				if viaGroup {
					call(reflect.ValueOf(g).MethodByName(m.Name), []reflect.Value{reflect.ValueOf(cb)}, false)
				} else {
					rv, _ := call(reflect.ValueOf(fn), []reflect.Value{reflect.ValueOf(cb)}, false)
					g.Add(rv.Interface().(*jen.Statement))
				}
			}))
		}
		a, b := build(true), build(false)
		r.Eval(2)
		desc := "g." + m.Name + "(f) vs g.Add(" + m.Name + "(f)) where f also emits into g"
		r.Distinct(desc)
		if a.Key() != b.Key() {
			r.Violate(ev.Violation{Signature: "c14:hoisting:" + m.Name, What: fmt.Sprintf("%s: %q vs %q", desc, a, b), Case: ev.JSON(c14Case{Kind: "hoisting", Name: m.Name, Desc: desc})})
		}
	}
}

// c14Reentrant: the statement-method analogue of c14Hoisting. A callback handed to s.XFunc also
// appends to s itself (the group it fills is attached to s only when XFunc returns), or panics
// (the caller recovers and goes on using s): s must end up as with s.Add(XFunc(cb)), the package
// function form.
func c14Reentrant(r *ev.Recorder) {
	for i := 0; i < stmtType.NumMethod(); i++ {
		m := stmtType.Method(i)
		if !strings.HasSuffix(m.Name, "Func") || m.Type.NumIn() != 2 || m.Type.In(1) != groupFunc {
			continue
		}
		fn, ok := apiFuncs[m.Name]
		if !ok {
			continue
		}
		for _, mode := range []string{"also appends to the receiver", "panics after adding an item"} {
			build := func(method bool) jh.Outcome {
				s := jen.Id("a")
				cb := func(inner *jen.Group) {
					inner.Id("x")
					if mode[0] == 'p' {
						panic("callback failed")
					}
					s.Id("hoisted")
				}
				if method {
					call(reflect.ValueOf(s).MethodByName(m.Name), []reflect.Value{reflect.ValueOf(cb)}, false)
				} else if rv, p := call(reflect.ValueOf(fn), []reflect.Value{reflect.ValueOf(cb)}, false); p == nil {
					s.Add(rv.Interface().(*jen.Statement))
				}
				s.Id("after")
				return jh.Raw(s)
			}
			a, b := build(true), build(false)
			r.Eval(2)
			desc := "s." + m.Name + "(f) vs s.Add(" + m.Name + "(f)) where f " + mode
			r.Distinct(desc)
			if a.Key() != b.Key() {
				r.Violate(ev.Violation{Signature: "c14:reentrant:" + m.Name, What: fmt.Sprintf("%s: %q vs %q", desc, a, b), Case: ev.JSON(c14Case{Kind: "hoisting", Name: m.Name, Desc: desc})})
			}
		}
	}
}

// c14LateMaps: a tag map handed to the three forms of Tag while empty (or with one key) and
// filled afterwards - the forms keep the caller's map or they copy it, but all alike.
func c14LateMaps(r *ev.Recorder) {
	for _, start := range []map[string]string{{}, {"a": "1"}, nil} {
		for _, late := range []map[string]string{{"k": "v"}, {"a": "2", "b": "3"}, {}} {
			var outs []string
			for form := 0; form < 3; form++ {
				var m map[string]string
				if start != nil {
					m = map[string]string{}
					for k, v := range start {
						m[k] = v
					}
				}
				var st *jen.Statement
				switch form {
				case 0:
					st = jen.Id("F").Int().Add(jen.Tag(m))
				case 1:
					st = jen.Id("F").Int().Tag(m)
				case 2:
					st = jen.Id("F").Int().Add(jen.CustomFunc(jen.Options{}, func(g *jen.Group) { g.Tag(m) }))
				}
				if m != nil {
					for k, v := range late {
						m[k] = v
					}
				}
				outs = append(outs, jh.Raw(jen.Struct(st)).Key())
			}
			r.Eval(3)
			desc := fmt.Sprintf("Tag(%v) as function / method / Group method, the map then extended by %v", start, late)
			r.Distinct(desc)
			if outs[0] != outs[1] || outs[1] != outs[2] {
				r.Violate(ev.Violation{Signature: "c14:late-map:Tag", What: fmt.Sprintf("%s: function form %q, method form %q, Group form %q", desc, outs[0], outs[1], outs[2]), Case: ev.JSON(c14Case{Kind: "hoisting", Name: "Tag", Desc: desc})})
			}
		}
	}
}

type c14Case struct {
	Kind  string `json:"kind"`
	Name  string `json:"name"`
	Combo []int  `json:"combo,omitempty"`
	Desc  string `json:"description"`
}

func runC14(r *ev.Recorder) {
	cs, missing := c14Constructs()
	var names []string
	for _, c := range cs {
		names = append(names, c.name)
	}
	r.Rule = fmt.Sprintf("every exported builder in *Statement's method set at check time (%d constructs: %v) x the cartesian product of tiny argument domains synthesised by parameter type "+
		"(strings, Code, ...Code lists of 0-3 items incl. Null() and two paths with the same guessed alias, callbacks, tag maps, Options, literals). For each: package function (from the generated list of the tree's exported functions), "+
		"method on a fresh and on a non-empty *Statement, *Group method (appends exactly one item, identical to the returned statement; appending to the result never changes an argument), "+
		"raw renderings byte-equal across forms; GoString / Render / RenderWithFile(fresh File) agree; ...Func variants equal their variadic form; every callback counter == 1 when the constructing call returns and unchanged after three renders. "+
		"LitFunc / LitRuneFunc / LitByteFunc render what Lit / LitRune / LitByte render for the returned value, also for values outside Lit's contract (non-finite floats, unsupported types, invalid code points). Late arguments: every *Statement argument gets a token appended and every tag map a key added after the constructing call - the three forms must still render alike. Re-entrant callbacks: a callback that also appends to the receiver / enclosing group, or panics and is recovered, leaves the same statement behind in the method and the function form; a tag map filled after Tag(m) was called shows alike in all three forms. Runs on a single goroutine, in one process, so that hidden state shared by stand-alone renders would show. distinct_nontrivial = distinct (construct, argument combination) cases", len(cs), names)
	r.Assume = []string{"argument values outside the tiny domains are outside the bound", "DictFunc returns a Dict, not a statement: its callback count is checked separately"}
	if len(missing) > 0 {
		r.Note("constructs_without_synthesised_arguments", missing)
	}
	if len(cs) < 100 {
		fmt.Println("C14: suspiciously few constructs discovered:", len(cs))
	}
	for _, c := range cs {
		for _, combo := range combos(c.domains) {
			probs, evals := c14One(c, combo)
			if msg := c14LateArgs(c, combo); msg != "" {
				probs = append(probs, c.describe(combo)+": "+msg)
			}
			evals += 3
			r.Eval(int64(evals))
			desc := c.describe(combo)
			r.Distinct(desc)
			if len(probs) > 0 {
				r.Violate(ev.Violation{Signature: "c14:" + c.name + ":" + problemKind(strings.TrimPrefix(probs[0], desc+": ")), What: probs[0],
					Case: ev.JSON(c14Case{Kind: "construct", Name: c.name, Combo: combo, Desc: desc}), Detail: strings.Join(probs, "\n")})
			}
			if len(combo) == 2 && r.WantSample() {
				r.Sample(desc)
			}
		}
	}
	c14FuncVariants(r)
	c14SharedSlices(r)
	c14SpareCapacity(r)
	c14Hoisting(r)
	c14Reentrant(r)
	c14RetainedGroup(r)
	c14LateMaps(r)
	// the ...Func literal constructors are the plain ones applied to what the callback returns -
	// whatever the plain one does with the value (also when it is a value Lit cannot render)
	for _, v := range []any{1, "s", 1.5, true, int8(3), 2i, uint64(1) << 63, float32(0.1), math.Inf(1), math.Inf(-1), math.NaN(), float32(math.Inf(1)), complex(math.NaN(), 1), complex64(complex(math.Inf(1), 0)), struct{ A int }{1}, []int{1}, nil, c14Level(3), c14Name("n"), time.Duration(5), c14Ratio(1.5)} {
		v := v
		a := jh.CatchOutcome(func() jh.Outcome { return jh.Raw(jen.Id("x").Op("=").Lit(v)) })
		b := jh.CatchOutcome(func() jh.Outcome { return jh.Raw(jen.Id("x").Op("=").LitFunc(func() interface{} { return v })) })
		r.Eval(2)
		r.Distinct(fmt.Sprintf("litfunc-%T-%v", v, v))
		if a.OK() != b.OK() || a.OK() && a.Out != b.Out {
			r.Violate(ev.Violation{Signature: "c14:LitFunc-vs-Lit", What: fmt.Sprintf("Lit(%T %v) renders %q, LitFunc returning it %q", v, v, a, b), Case: ev.JSON(c14Case{Kind: "hoisting", Name: "LitFunc", Desc: "LitFunc vs Lit"})})
		}
	}
	for _, v := range []rune{'a', 0, '\'', '\n', 0x2028, 0xFFFD, 0x10FFFF, -1, 0xD800} {
		v := v
		a := jh.CatchOutcome(func() jh.Outcome { return jh.Raw(jen.Id("x").Op("=").LitRune(v)) })
		b := jh.CatchOutcome(func() jh.Outcome { return jh.Raw(jen.Id("x").Op("=").LitRuneFunc(func() rune { return v })) })
		r.Eval(2)
		if a.OK() != b.OK() || a.OK() && a.Out != b.Out {
			r.Violate(ev.Violation{Signature: "c14:LitRuneFunc-vs-LitRune", What: fmt.Sprintf("LitRune(%U) renders %q, LitRuneFunc returning it %q", v, a, b), Case: ev.JSON(c14Case{Kind: "hoisting", Name: "LitRuneFunc", Desc: "LitRuneFunc vs LitRune"})})
		}
	}
	for _, v := range []byte{0, 'a', '\'', 0x7f, 0xff} {
		v := v
		a := jh.CatchOutcome(func() jh.Outcome { return jh.Raw(jen.Id("x").Op("=").LitByte(v)) })
		b := jh.CatchOutcome(func() jh.Outcome { return jh.Raw(jen.Id("x").Op("=").LitByteFunc(func() byte { return v })) })
		r.Eval(2)
		if a.OK() != b.OK() || a.OK() && a.Out != b.Out {
			r.Violate(ev.Violation{Signature: "c14:LitByteFunc-vs-LitByte", What: fmt.Sprintf("LitByte(%d) renders %q, LitByteFunc returning it %q", v, a, b), Case: ev.JSON(c14Case{Kind: "hoisting", Name: "LitByteFunc", Desc: "LitByteFunc vs LitByte"})})
		}
	}
	// DictFunc
	n := 0
	d := jen.DictFunc(func(d jen.Dict) { n++; d[jen.Lit(1)] = jen.Lit(2) })
	s := jen.Values(d)
	jh.Raw(s)
	jh.Raw(s)
	r.Eval(1)
	if n != 1 {
		r.Violate(ev.Violation{Signature: "c14:DictFunc", What: fmt.Sprintf("DictFunc callback ran %d times", n), Case: ev.JSON(c14Case{Kind: "dictfunc", Desc: "DictFunc"})})
	}
	// every package-level function returning *Statement has a method form and vice versa
	for name, fn := range apiFuncs {
		ft := reflect.TypeOf(fn)
		if ft.NumOut() == 1 && ft.Out(0) == stmtType {
			if _, ok := stmtType.MethodByName(name); !ok {
				r.Violate(ev.Violation{Signature: "c14:missing-form", What: "function " + name + " has no *Statement method form", Case: ev.JSON(c14Case{Kind: "forms", Name: name, Desc: name})})
			}
			if _, ok := groupType.MethodByName(name); !ok {
				r.Violate(ev.Violation{Signature: "c14:missing-form", What: "function " + name + " has no *Group method form", Case: ev.JSON(c14Case{Kind: "forms", Name: name, Desc: name})})
			}
		}
	}
	r.Count("constructs", int64(len(cs)))
}

func replayC14(raw json.RawMessage) (bool, string) {
	var c c14Case
	if err := json.Unmarshal(raw, &c); err != nil {
		return true, "bad case"
	}
	if c.Kind != "construct" {
		return true, "replayed by running the check"
	}
	cs, _ := c14Constructs()
	for _, k := range cs {
		if k.name == c.Name {
			probs, _ := c14One(k, c.Combo)
			return len(probs) == 0, c.Desc + ":\n" + strings.Join(probs, "\n")
		}
	}
	return true, "construct not present on this tree"
}
