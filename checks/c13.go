package checks

import (
	"encoding/json"
	"fmt"
	"os"
	"path/filepath"
	"reflect"
	"sort"
	"strings"
	"sync/atomic"

	"github.com/dave/jennifer/jen"

	"verif/internal/a2j"
	"verif/internal/ev"
	"verif/internal/explore"
	"verif/internal/jh"
)

// C13: nil and Null() items vanish from lists; Empty() keeps its separator.

func init() {
	register(&Check{ID: "C13", Level: "exploration", Run: runC13, Replay: replayC13})
}

var (
	codeType  = reflect.TypeOf((*jen.Code)(nil)).Elem()
	stmtType  = reflect.TypeOf(&jen.Statement{})
	groupFunc = reflect.TypeOf(func(*jen.Group) {})
)

// listConstruct is one list-like construct discovered by reflection over *Statement's methods.
type listConstruct struct {
	name   string
	custom int  // >= 0: index into c13Options (Custom); -1: plain variadic method
	fn     bool // the ...Func variant
}

var c13Options = []jen.Options{
	{Open: "(", Close: ")", Separator: ","},
	{Separator: "|"},
	{Open: "{", Close: "}", Separator: ";", Multi: true},
	{Open: "[", Close: "]"},
	{Multi: true, Separator: " +"},
	{Close: ";", Multi: true},
}

func (lc listConstruct) String() string {
	s := lc.name
	if lc.fn {
		s += "Func"
	}
	if lc.custom >= 0 {
		s += fmt.Sprintf("%+v", c13Options[lc.custom])
	}
	return s
}

// buildFunc applies the ...Func variant of the construct with the given callback.
func (lc listConstruct) buildFunc(cb func(g *jen.Group)) *jen.Statement {
	st := &jen.Statement{}
	m := reflect.ValueOf(st).MethodByName(lc.name + "Func")
	var args []reflect.Value
	if lc.custom >= 0 {
		args = append(args, reflect.ValueOf(c13Options[lc.custom]))
	}
	m.Call(append(args, reflect.ValueOf(cb)))
	return st
}

// build applies the construct to a fresh statement.
func (lc listConstruct) build(items []jen.Code) *jen.Statement {
	st := &jen.Statement{}
	recv := reflect.ValueOf(st)
	name := lc.name
	if lc.fn {
		name += "Func"
	}
	m := recv.MethodByName(name)
	var args []reflect.Value
	if lc.custom >= 0 {
		args = append(args, reflect.ValueOf(c13Options[lc.custom]))
	}
	if lc.fn {
		args = append(args, reflect.ValueOf(func(g *jen.Group) {
			for _, it := range items {
				g.Add(it)
			}
		}))
		m.Call(args)
		return st
	}
	if items == nil {
		items = []jen.Code{}
	}
	// the caller's slice itself is passed on (not a copy), as `Construct(items...)` does
	sl := reflect.ValueOf(items)
	m.CallSlice(append(args, sl))
	return st
}

var c13Constructs = func() []listConstruct {
	var out []listConstruct
	var names []string
	for i := 0; i < stmtType.NumMethod(); i++ {
		m := stmtType.Method(i)
		if mt := m.Type; mt.IsVariadic() && mt.NumIn() == 2 && mt.In(1).Elem() == codeType {
			names = append(names, m.Name)
		}
	}
	sort.Strings(names)
	for _, n := range names {
		out = append(out, listConstruct{name: n, custom: -1})
		if m, ok := stmtType.MethodByName(n + "Func"); ok && m.Type.NumIn() == 2 && m.Type.In(1) == groupFunc {
			out = append(out, listConstruct{name: n, custom: -1, fn: true})
		}
	}
	if _, ok := stmtType.MethodByName("Custom"); ok {
		for i := range c13Options {
			out = append(out, listConstruct{name: "Custom", custom: i}, listConstruct{name: "Custom", custom: i, fn: true})
		}
	}
	return out
}()

type nullKind struct {
	name string
	mk   func() jen.Code
}

var c13Nulls = []nullKind{
	{"nil", func() jen.Code { return nil }},
	{"Null()", func() jen.Code { return jen.Null() }},
	{"&Statement{}", func() jen.Code { return &jen.Statement{} }},
	{"Add()", func() jen.Code { return jen.Add() }},
	{"List()", func() jen.Code { return jen.List() }},
	{"Union()", func() jen.Code { return jen.Union() }},
	{"Tag(nil)", func() jen.Code { return jen.Tag(nil) }},
	{"Add(Null(),Null())", func() jen.Code { return jen.Add(jen.Null(), jen.Null()) }},
	{"(*Statement)(nil)", func() jen.Code { var s *jen.Statement; return s }},
	{"(*Group)(nil)", func() jen.Code { var g *jen.Group; return g }},
	{"Tag(map{})", func() jen.Code { return jen.Tag(map[string]string{}) }},
	{"List(Null())", func() jen.Code { return jen.List(jen.Null()) }},
	{"Union(nil)", func() jen.Code { return jen.Union(nil) }},
	{"Add(nil)", func() jen.Code { return jen.Add(nil) }},
	{"List(Add(),nil)", func() jen.Code { return jen.List(jen.Add(), nil) }},
	{"Custom{}(Null())", func() jen.Code { return jen.Custom(jen.Options{Separator: ","}, jen.Null()) }},
	{"Null() cloned 150 times", func() jen.Code {
		s := jen.Null()
		for i := 0; i < 150; i++ {
			s = s.Clone()
		}
		return s
	}},
	{"Null() wrapped in 150 nested Add", func() jen.Code {
		var c jen.Code = jen.Null()
		for i := 0; i < 150; i++ {
			c = jen.Add(c)
		}
		return c
	}},
	{"Dict{}", func() jen.Code { return jen.Dict{} }},
	{"Dict{Null(): Null()}", func() jen.Code { return jen.Dict{jen.Null(): jen.Null()} }},
	{"nil wrapped in 101 nested List", func() jen.Code {
		var c jen.Code
		for i := 0; i < 101; i++ {
			c = jen.List(c)
		}
		return c
	}},
}

// c13RealStyle selects what the real items are: identifiers (0), the last one a line comment
// (1), the first one a line comment (2), each followed by a comment (3).
func c13RealOf(style, i, arity int) jen.Code {
	switch {
	case style == 1 && i == arity-1, style == 2 && i == 0:
		return jen.Comment(fmt.Sprintf("c%d", i))
	case style == 3:
		return jen.Id(fmt.Sprintf("x%d", i)).Comment("t")
	case style == 4 && i == 0, style == 5 && i == arity-1 && arity > 1:
		return jen.Line() // a bare line break as an item of its own (first / last)
	}
	return jen.Id(fmt.Sprintf("x%d", i))
}

func c13Real(i int) jen.Code { return jen.Id(fmt.Sprintf("x%d", i)) }

func c13RenderStmt(s *jen.Statement) jh.Outcome { return jh.Raw(s) }

type c13Case struct {
	Kind      string `json:"kind"` // inject | empty | rerender | shared
	Construct int    `json:"construct"`
	Second    int    `json:"second_construct,omitempty"`
	Arity     int    `json:"arity"`
	Vector    []int  `json:"vector,omitempty"`
	Pos       int    `json:"pos,omitempty"`
	Wrap      int    `json:"wrap,omitempty"`
	Desc      string `json:"description"`
}

// c13Inject builds the item list with null items injected as the choice vector says.
func c13Inject(c *explore.Ctx, arity, style int) (items []jen.Code, desc []string, injected int) {
	for slot := 0; slot <= arity; slot++ {
		for k := 0; k < 2; k++ {
			n := c.Choose(1 + len(c13Nulls))
			if n == 0 {
				break
			}
			items = append(items, c13Nulls[n-1].mk())
			desc = append(desc, c13Nulls[n-1].name)
			injected++
		}
		if slot < arity {
			items = append(items, c13RealOf(style, slot, arity))
			desc = append(desc, fmt.Sprintf("item%d", slot))
		}
	}
	return
}

func c13Plain(arity int) []jen.Code { return c13PlainStyle(arity, 0) }

func c13PlainStyle(arity, style int) []jen.Code {
	var items []jen.Code
	for i := 0; i < arity; i++ {
		items = append(items, c13RealOf(style, i, arity))
	}
	return items
}

var c13Wraps = []struct {
	name string
	mk   func(p jen.Code) jen.Code
}{
	{"item", func(p jen.Code) jen.Code { return p }},
	{"List(item)", func(p jen.Code) jen.Code { return jen.List(p) }},
	{"Union(item)", func(p jen.Code) jen.Code { return jen.Union(p) }},
	{"Add(item)", func(p jen.Code) jen.Code { return jen.Add(p) }},
	{"Custom{}(item)", func(p jen.Code) jen.Code { return jen.Custom(jen.Options{Separator: ","}, p) }},
	{"Types(item)", func(p jen.Code) jen.Code { return jen.Id("T").Types(p) }},
}

// c13Rerender: a placeholder item that is null at the first render and real at the second
// (and the other way round); each render must equal that of a freshly built list.
// phKind: the null placeholder is Null() (0: one null token) or &Statement{} (1: no token at all).
func c13Rerender(lc listConstruct, wrap int, nullFirst bool, phKind int) string {
	blank := func() *jen.Statement {
		if phKind == 1 {
			return &jen.Statement{}
		}
		return jen.Null()
	}
	fresh := func(null bool) string {
		p := blank()
		if !null {
			p.Id("late")
		}
		return c13RenderStmt(lc.build([]jen.Code{c13Real(0), c13Wraps[wrap].mk(p), c13Real(1)})).Key()
	}
	p := blank()
	if !nullFirst {
		p.Id("late")
	}
	st := lc.build([]jen.Code{c13Real(0), c13Wraps[wrap].mk(p), c13Real(1)})
	r1 := c13RenderStmt(st).Key()
	if want := fresh(nullFirst); r1 != want {
		return fmt.Sprintf("first render %q, want %q", r1, want)
	}
	if nullFirst {
		p.Id("late")
	} else {
		*p = (*p)[:1-phKind] // back to only the Null token / to no token
	}
	r2 := c13RenderStmt(st).Key()
	if want := fresh(!nullFirst); r2 != want {
		return fmt.Sprintf("after the placeholder item changed, the same list renders %q; a freshly built list renders %q", r2, want)
	}
	return ""
}

// c13Shared: one argument slice with nil entries spread into two constructs.
func c13Shared(a, b listConstruct, nilMask int) string {
	mk := func() []jen.Code {
		var s []jen.Code
		for i := 0; i < 3; i++ {
			if nilMask&(1<<i) != 0 {
				s = append(s, nil)
			}
			s = append(s, c13Real(i))
		}
		return s
	}
	wantA, wantB := c13RenderStmt(a.build(mk())).Key(), c13RenderStmt(b.build(mk())).Key()
	s := mk()
	ga, gb := a.build(s), b.build(s)
	ra1, rb, ra2 := c13RenderStmt(ga).Key(), c13RenderStmt(gb).Key(), c13RenderStmt(ga).Key()
	rc := c13RenderStmt(a.build(s)).Key()
	switch {
	case ra1 != wantA:
		return fmt.Sprintf("first construct renders %q, want %q", ra1, wantA)
	case rb != wantB:
		return fmt.Sprintf("second construct built from the same argument slice renders %q, privately built %q", rb, wantB)
	case ra2 != wantA:
		return fmt.Sprintf("first construct renders %q the second time, want %q", ra2, wantA)
	case rc != wantA:
		return fmt.Sprintf("a construct built from the argument slice after the renders gives %q, want %q (the caller's slice was changed)", rc, wantA)
	}
	return ""
}

func c13Empty(lc listConstruct, arity, pos int) string {
	mk := func(mid jen.Code) jh.Outcome {
		items := c13Plain(arity)
		items[pos] = mid
		return c13RenderStmt(lc.build(items))
	}
	o := mk(jen.Id("ΩΩ"))
	// Empty() alone, and Empty() at the end of a statement that consists of null items only: the
	// statement renders nothing but is a real item all the same
	for _, ek := range []struct {
		name string
		mk   func() jen.Code
	}{
		{"Empty()", func() jen.Code { return jen.Empty() }},
		{"Null().Empty()", func() jen.Code { return jen.Null().Empty() }},
		{"Add(nil).Empty()", func() jen.Code { return jen.Add(nil).Empty() }},
		{"List().Empty()", func() jen.Code { return jen.List().Empty() }},
		{"Empty().Null()", func() jen.Code { return jen.Empty().Null() }},
	} {
		e := mk(ek.mk())
		if !e.OK() || !o.OK() {
			if e.Key() != o.Key() {
				return fmt.Sprintf("%s gives %s, an identifier in its place gives %s", ek.name, e, o)
			}
			continue
		}
		if want := strings.ReplaceAll(o.Out, "ΩΩ", ""); strings.ReplaceAll(e.Out, " ", "") != strings.ReplaceAll(want, " ", "") || (ek.name == "Empty()" && e.Out != want) {
			return fmt.Sprintf("with %s at position %d: %q; with an identifier there and the identifier deleted: %q", ek.name, pos, e.Out, want)
		}
	}
	return ""
}

func runC13(r *ev.Recorder) {
	maxArity, dev := 5, 2
	if r.Tier == ev.Thorough {
		maxArity, dev = 6, 3
		r.SetDeadline(40 * 60 * 1e9)
	} else {
		r.SetDeadline(5 * 60 * 1e9)
	}
	var cn, nn []string
	for _, c := range c13Constructs {
		cn = append(cn, c.String())
	}
	for _, n := range c13Nulls {
		nn = append(nn, n.name)
	}
	r.Rule = fmt.Sprintf("list constructs discovered by reflection over *Statement's method set at check time (%d: every variadic ...Code builder, its ...Func variant, Custom/CustomFunc with 6 option shapes incl. multi-line without opening token): %v. "+
		"(a) injection: arities 0..%d (real items: identifiers; for arities 1..3 also with a line comment as last / first item, with a trailing comment on every item, and with a bare Line() as first / last item); at every slot (before, between, after the real items) up to 2 null items of %d kinds %v, with at most %d injected items per case (choice-point explorer); oracle: raw rendering identical to the one without injections (differential, fresh objects). "+
		"also arities 8, 17, 40, 130 with one null item at every slot and with null items at all slots, and arities 260, 520, ..., 4160 with null items at all slots / first / middle / last (real and total item counts straddle every size up to 4160). (b) Empty() - alone and at the end of statements made of null items only (Null().Empty(), Add(nil).Empty(), List().Empty(), Empty().Null()) -: at every position of every arity 1..%d; oracle: raw bytes equal those with an identifier in its place after deleting the identifier. "+
		"(c) re-render: a placeholder item (Null() or a token-less &Statement{}; bare, or inside List/Union/Add/Custom/Types) that is null at the first render and real at the second, and vice versa; each render must equal a freshly built list. "+
		"(d) one argument slice with nil entries spread into two constructs (every ordered pair of constructs x every nil placement): both render as if built privately, twice, and the caller's slice is unchanged. "+
		"(g) Add(nil) / Null() / Tag(nil) / Add(List()) appended inside items (after their last token, also after a line comment): same rendering as without. (f) every ordered pair of ...Func constructs built with g.Null() placeholders: filling the first one's placeholder afterwards changes only the first. (e) program level: real programs of the corpus, translated into the DSL with null items injected at every list-construct site under 3 uniform policies, must re-parse to the same syntax tree. distinct_nontrivial = distinct (construct, item list) cases with at least one injected/Empty/placeholder item", len(c13Constructs), cn, maxArity, len(c13Nulls), nn, dev, maxArity)
	r.Assume = []string{"an empty Types() used as a list item is not in the property's list of vanishing items and is not injected; a Dict without any renderable pair is (it is built only from null items)", "program level: every 12th corpus file in the quick tier, every file in the thorough tier"}

	for ci, lc := range c13Constructs {
		ci, lc := ci, lc
		for arity := 0; arity <= maxArity; arity++ {
			arity := arity
			for style := 0; style < 6; style++ {
				if style > 0 && (arity == 0 || arity > 3) {
					continue
				}
				style := style
				want := c13RenderStmt(lc.build(c13PlainStyle(arity, style)))
				explore.Explore(explore.Options{MaxDev: dev, Stop: r.Expired}, func(c *explore.Ctx) {
					items, desc, inj := c13Inject(c, arity, style)
					got := c13RenderStmt(lc.build(items))
					r.Eval(1)
					d := fmt.Sprintf("%s(%s) item style %d", lc, strings.Join(desc, ", "), style)
					if inj > 0 {
						r.Distinct(d)
					}
					if got.Key() != want.Key() {
						r.Violate(ev.Violation{Signature: "c13:inject:" + lc.name + ":" + problemKind(got.Key()), What: fmt.Sprintf("%s renders %q, without the null items %q", d, got, want),
							Case: ev.JSON(c13Case{Kind: "inject", Construct: ci, Arity: arity, Wrap: style, Vector: c.Vector(), Desc: d}), Detail: fmt.Sprintf("got  %s\nwant %s", got, want)})
					}
					if inj == 2 && arity == 2 && r.WantSample() && ci%5 == 0 {
						r.Sample(map[string]any{"case": d, "renders": got.String()})
					}
				})
			}
			for pos := 0; pos < arity; pos++ {
				r.Eval(1)
				d := fmt.Sprintf("%s arity %d Empty() at %d", lc, arity, pos)
				r.Distinct(d)
				if msg := c13Empty(lc, arity, pos); msg != "" {
					r.Violate(ev.Violation{Signature: "c13:empty:" + lc.name, What: d + ": " + msg, Case: ev.JSON(c13Case{Kind: "empty", Construct: ci, Arity: arity, Pos: pos, Desc: d}), Detail: msg})
				}
			}
		}
		// large arities: one null item (of every kind) at every slot, and nulls at every slot at once
		for _, arity := range []int{8, 17, 40, 130} {
			want := c13RenderStmt(lc.build(c13Plain(arity)))
			check := func(items []jen.Code, d string) {
				got := c13RenderStmt(lc.build(items))
				r.Eval(1)
				r.Distinct(d)
				if got.Key() != want.Key() {
					r.Violate(ev.Violation{Signature: "c13:large:" + lc.name, What: fmt.Sprintf("%s renders %q, without the null items %q", d, jh.Short(got.String(), 300), jh.Short(want.String(), 300)),
						Case: ev.JSON(c13Case{Kind: "large", Construct: ci, Arity: arity, Desc: d})})
				}
			}
			for slot := 0; slot <= arity; slot++ {
				k := slot % len(c13Nulls)
				var items []jen.Code
				for i := 0; i <= arity; i++ {
					if i == slot {
						items = append(items, c13Nulls[k].mk())
					}
					if i < arity {
						items = append(items, c13Real(i))
					}
				}
				check(items, fmt.Sprintf("%s with %d items and %s at slot %d", lc, arity, c13Nulls[k].name, slot))
			}
			var all []jen.Code
			for i := 0; i <= arity; i++ {
				all = append(all, c13Nulls[i%len(c13Nulls)].mk())
				if i < arity {
					all = append(all, c13Real(i))
				}
			}
			check(all, fmt.Sprintf("%s with %d items and a null item at every slot", lc, arity))
		}
		// very large arities n = 130 * 2^k: n real items with n+1 cheap null items in between (so the
		// number of real items and the total item count straddle every size in 65..4160), and with one
		// null item first / in the middle / last
		for arity := 260; arity <= 4160; arity *= 2 {
			want := c13RenderStmt(lc.build(c13Plain(arity)))
			for variant := 0; variant < 4; variant++ {
				var items []jen.Code
				for i := 0; i <= arity; i++ {
					if variant == 0 || (variant == 1 && i == 0) || (variant == 2 && i == arity/2) || (variant == 3 && i == arity) {
						items = append(items, c13Nulls[i%4].mk())
					}
					if i < arity {
						items = append(items, c13Real(i))
					}
				}
				got := c13RenderStmt(lc.build(items))
				r.Eval(1)
				d := fmt.Sprintf("%s with %d items and null items %s", lc, arity, []string{"at every slot", "first", "in the middle", "last"}[variant])
				r.Distinct(d)
				if got.Key() != want.Key() {
					r.Violate(ev.Violation{Signature: "c13:large:" + lc.name, What: fmt.Sprintf("%s renders %q, without the null items %q", d, jh.Short(got.String(), 300), jh.Short(want.String(), 300)),
						Case: ev.JSON(c13Case{Kind: "large", Construct: ci, Arity: arity, Desc: d})})
				}
			}
		}
		for wi := range c13Wraps {
			for _, nullFirst := range []bool{true, false} {
				for phKind := 0; phKind < 2; phKind++ {
					r.Eval(1)
					d := fmt.Sprintf("%s(x0, %s, x1) with a placeholder (%s) that is null first=%v", lc, c13Wraps[wi].name, []string{"Null()", "&Statement{}"}[phKind], nullFirst)
					r.Distinct(d)
					if msg := jh.Catch(func() (string, error) { return c13Rerender(lc, wi, nullFirst, phKind), nil }); msg.String() != "" {
						r.Violate(ev.Violation{Signature: "c13:rerender:" + c13Wraps[wi].name, What: d + ": " + msg.String(),
							Case: ev.JSON(c13Case{Kind: "rerender", Construct: ci, Wrap: wi, Pos: map[bool]int{true: 1, false: 0}[nullFirst] + 2*phKind, Desc: d}), Detail: msg.String()})
					}
				}
			}
		}
		// (g) null items appended INSIDE an item, after its last token (also after a line comment):
		// the list renders as without them
		for _, tail := range []struct {
			name string
			add  func(s *jen.Statement)
		}{
			{"Add(nil)", func(s *jen.Statement) { s.Add(nil) }}, {"Null()", func(s *jen.Statement) { s.Null() }},
			{"Tag(nil)", func(s *jen.Statement) { s.Tag(nil) }}, {"Add(List())", func(s *jen.Statement) { s.Add(jen.List()) }},
		} {
			for _, withComment := range []bool{false, true} {
				mk := func(withTail bool) jh.Outcome {
					var items []jen.Code
					for i := 0; i < 3; i++ {
						it := jen.Id(fmt.Sprintf("x%d", i))
						if withComment && i < 2 {
							it.Comment("c")
						}
						if withTail && i < 2 {
							tail.add(it)
						}
						items = append(items, it)
					}
					return c13RenderStmt(lc.build(items))
				}
				got, want := mk(true), mk(false)
				r.Eval(1)
				d := fmt.Sprintf("%s: %s appended inside the first two of three items (items end in a line comment: %v)", lc, tail.name, withComment)
				r.Distinct(d)
				if got.Key() != want.Key() {
					r.Violate(ev.Violation{Signature: "c13:null-inside-item:" + lc.name, What: fmt.Sprintf("%s renders %q, without them %q", d, got, want), Case: ev.JSON(c13Case{Kind: "groupnull", Construct: ci, Desc: d})})
				}
			}
		}
		// (f) null placeholders made with the Group form g.Null() inside two independent ...Func
		// constructs; one of them is filled in afterwards - the other list must not notice
		if lc.fn {
			for cj, lb := range c13Constructs {
				if !lb.fn {
					continue
				}
				r.Eval(1)
				d := fmt.Sprintf("%s and %s built with g.Null() placeholders, the first one's placeholder filled afterwards", lc, lb)
				r.Distinct(d)
				msg := jh.Catch(func() (string, error) {
					var ph *jen.Statement
					a := lc.buildFunc(func(g *jen.Group) { g.Add(c13Real(0)); ph = g.Null(); g.Add(c13Real(1)) })
					b := lb.buildFunc(func(g *jen.Group) { g.Add(c13Real(0)); g.Null(); g.Add(c13Real(1)) })
					wantB := c13RenderStmt(lb.build(c13Plain(2))).Key()
					if got := c13RenderStmt(b).Key(); got != wantB {
						return fmt.Sprintf("second list renders %q before anything was filled in, want %q", got, wantB), nil
					}
					ph.Id("late")
					wantA := c13RenderStmt(lc.build([]jen.Code{c13Real(0), jen.Id("late"), c13Real(1)})).Key()
					if got := c13RenderStmt(a).Key(); got != wantA {
						return fmt.Sprintf("first list renders %q after its placeholder was filled, want %q", got, wantA), nil
					}
					if got := c13RenderStmt(b).Key(); got != wantB {
						return fmt.Sprintf("second list renders %q after the FIRST list's placeholder was filled, want %q", got, wantB), nil
					}
					return "", nil
				})
				if msg.String() != "" {
					r.Violate(ev.Violation{Signature: "c13:group-null-placeholder:" + problemKind(msg.String()), What: d + ": " + msg.String(),
						Case: ev.JSON(c13Case{Kind: "groupnull", Construct: ci, Second: cj, Desc: d}), Detail: msg.String()})
				}
			}
		}
		for cj, lb := range c13Constructs {
			for mask := 1; mask < 8; mask++ {
				r.Eval(1)
				d := fmt.Sprintf("slice with nils (mask %03b) spread into %s and %s", mask, lc, lb)
				r.Distinct(d)
				if msg := jh.Catch(func() (string, error) { return c13Shared(lc, lb, mask), nil }); msg.String() != "" {
					r.Violate(ev.Violation{Signature: "c13:shared-slice:" + problemKind(msg.String()), What: d + ": " + msg.String(),
						Case: ev.JSON(c13Case{Kind: "shared", Construct: ci, Second: cj, Pos: mask, Desc: d}), Detail: msg.String()})
				}
			}
		}
	}
	r.Count("constructs", int64(len(c13Constructs)))

	// (e) program level: null items injected at EVERY list-construct site of real programs (corpus
	// files, translated by internal/a2j) under three uniform policies; the syntax tree must not change
	policies := []struct {
		name string
		fn   func(site int, name string, items []jen.Code) []jen.Code
	}{
		{"Null() first, nil last", func(site int, name string, items []jen.Code) []jen.Code {
			return append(append([]jen.Code{jen.Null()}, items...), nil)
		}},
		{"an empty List()/Add()/Tag(nil) between all items", func(site int, name string, items []jen.Code) []jen.Code {
			out := []jen.Code{}
			for i, it := range items {
				if i > 0 {
					out = append(out, c13Nulls[3+(site+i)%4].mk())
				}
				out = append(out, it)
			}
			return out
		}},
		{"two null items of rotating kinds around every item", func(site int, name string, items []jen.Code) []jen.Code {
			out := []jen.Code{}
			for i, it := range items {
				out = append(out, c13Nulls[(site+i)%16].mk(), it, c13Nulls[(site+2*i+1)%16].mk())
			}
			if len(items) == 0 {
				out = append(out, c13Nulls[site%16].mk())
			}
			return out
		}},
	}
	stride := int64(12)
	if r.Tier == ev.Thorough {
		stride = 1
	}
	root := filepath.Join(defaultGoroot, "src")
	files := goFilesBelow(root)
	res := newResolver(defaultGoroot)
	var progs, sitesTotal atomic.Int64
	explore.Range(int64(len(files)), 0, r.Expired, func(_ int, i int64) {
		if i%stride != 0 {
			return
		}
		src, err := os.ReadFile(files[i])
		if err != nil {
			return
		}
		base := roundTrip(files[i], src, res.name, a2j.Hooks{})
		if base.Kind != "ok" {
			return
		}
		for pi, pol := range policies {
			b := roundTrip(files[i], src, res.name, a2j.Hooks{Items: pol.fn})
			r.Eval(1)
			progs.Add(1)
			sitesTotal.Add(int64(b.Sites))
			d := fmt.Sprintf("%s with policy %q at all %d list sites", strings.TrimPrefix(files[i], root+"/"), pol.name, b.Sites)
			r.Distinct(d)
			if b.Kind != "ok" {
				r.Violate(ev.Violation{Signature: "c13:program:" + b.Kind, What: d + ": " + b.Kind + " " + jh.Short(b.Detail, 300), Case: ev.JSON(c13Case{Kind: "program", Construct: pi, Desc: files[i]}), Detail: b.Detail})
			}
		}
	})
	r.Note("program_level", map[string]any{"programs_with_injection": progs.Load(), "list_sites_injected": sitesTotal.Load(), "corpus_stride": stride})
}

func replayC13(raw json.RawMessage) (bool, string) {
	var c c13Case
	if err := json.Unmarshal(raw, &c); err != nil || c.Construct >= len(c13Constructs) {
		return true, "bad case"
	}
	lc := c13Constructs[c.Construct]
	var msg string
	switch c.Kind {
	case "inject":
		items, _, _ := c13Inject(explore.NewReplay(c.Vector), c.Arity, c.Wrap)
		got, want := c13RenderStmt(lc.build(items)), c13RenderStmt(lc.build(c13PlainStyle(c.Arity, c.Wrap)))
		if got.Key() != want.Key() {
			msg = fmt.Sprintf("renders %q, without the null items %q", got, want)
		}
	case "large":
		return true, "large-arity cases are replayed by running the check"
	case "program":
		src, err := os.ReadFile(c.Desc)
		if err != nil {
			return true, "corpus file not readable"
		}
		b := roundTrip(c.Desc, src, newResolver(defaultGoroot).name, a2j.Hooks{Items: func(site int, name string, items []jen.Code) []jen.Code {
			return append(append([]jen.Code{jen.Null()}, items...), nil)
		}})
		return b.Kind == "ok", c.Desc + ": " + b.Kind + " " + b.Detail
	case "empty":
		msg = c13Empty(lc, c.Arity, c.Pos)
	case "rerender":
		msg = jh.Catch(func() (string, error) { return c13Rerender(lc, c.Wrap, c.Pos&1 == 1, c.Pos>>1), nil }).String()
	case "shared":
		msg = jh.Catch(func() (string, error) { return c13Shared(lc, c13Constructs[c.Second], c.Pos), nil }).String()
	}
	return msg == "", c.Desc + ": " + msg
}
