package checks

import (
	"encoding/hex"
	"encoding/json"
	"fmt"
	"go/constant"
	"go/token"
	"go/types"
	"strconv"
	"unicode"
	"unicode/utf8"

	"github.com/dave/jennifer/jen"

	"verif/internal/ev"
	"verif/internal/explore"
	"verif/internal/jh"
)

// C12: string, rune and byte literals preserve their exact content and are one token.

func init() {
	register(&Check{ID: "C12", Level: "exploration", Run: runC12, Replay: replayC12})
}

type c12Case struct {
	Kind string `json:"kind"` // string | rune | byte
	Hex  string `json:"hex,omitempty"`
	Rune int32  `json:"rune,omitempty"`
	Byte int    `json:"byte,omitempty"`
	Ctx  int    `json:"ctx"`
}

// the representative units of DESIGN.md §3 C12
var c12Units = []string{
	`"`, "`", `\`, "\n", "\r", "\x00", "\t", "\x7f", "\x80", "\xff", "\u00e9", "\u2028", "\ufeff", "\ufffd",
	"/", "*", "{", "}", ";", " ", "a", "%", "$", "'", "\xe2\x82", "\U0001F600",
}

const c12Hole = "HOLE"

// contexts a literal is placed in: the statement is built twice, with an identifier and with
// the literal in the hole.
var c12Contexts = []struct {
	name  string
	build func(hole jen.Code) jen.Code
}{
	{"assign", func(h jen.Code) jen.Code { return jen.Var().Id("x").Op("=").Add(h) }},
	{"callarg", func(h jen.Code) jen.Code { return jen.Var().Id("x").Op("=").Id("f").Call(jen.Lit(1), h, jen.Id("y")) }},
	{"dictkey", func(h jen.Code) jen.Code {
		return jen.Var().Id("x").Op("=").Id("T").Values(jen.Dict{h: jen.Lit(1), jen.Id("Zz"): jen.Lit(2)})
	}},
	{"beforecomment", func(h jen.Code) jen.Code {
		return jen.Func().Id("g").Params().Block(jen.Id("x").Op("=").Add(h).Comment("c"), jen.Id("y").Op("++"))
	}},
}

var c12Skeleton = func() [][]jh.Tok {
	var out [][]jh.Tok
	for _, c := range c12Contexts {
		o := jh.Raw(c.build(jen.Id(c12Hole)))
		if !o.OK() {
			panic("c12 skeleton: " + o.String())
		}
		toks, _, nerr := jh.Scan(o.Out, false)
		if nerr != 0 {
			panic("c12 skeleton does not scan")
		}
		out = append(out, toks)
	}
	return out
}()

// c12String checks one string in one context; "" = holds.
func c12String(s string, ctx int) string {
	o := jh.Raw(c12Contexts[ctx].build(jen.Lit(s)))
	if !o.OK() {
		return "render failed: " + o.String()
	}
	toks, _, nerr := jh.Scan(o.Out, false)
	if nerr != 0 {
		return fmt.Sprintf("scanner reports %d errors in %q", nerr, o.Out)
	}
	skel := c12Skeleton[ctx]
	if len(toks) != len(skel) {
		return fmt.Sprintf("token sequence changed: got %s want %s", jh.Short(jh.TokString(toks), 300), jh.TokString(skel))
	}
	for i, t := range skel {
		if t.Tok == token.IDENT && t.Lit == c12Hole {
			if toks[i].Tok != token.STRING {
				return fmt.Sprintf("hole holds %s, not a string literal", toks[i])
			}
			v, err := strconv.Unquote(toks[i].Lit)
			if err != nil {
				return fmt.Sprintf("literal %s does not unquote: %v", toks[i].Lit, err)
			}
			if v != s {
				return fmt.Sprintf("literal %s has value %q, want %q", toks[i].Lit, v, s)
			}
			continue
		}
		if toks[i] != t {
			return fmt.Sprintf("token %d is %s, want %s (output %q)", i, toks[i], t, jh.Short(o.Out, 200))
		}
	}
	return ""
}

func c12Formatted(s string) string {
	o := jh.Catch(func() (string, error) {
		st := jen.Var().Id("x").Op("=").Lit(s)
		return fmt.Sprintf("%#v", st), nil
	})
	if !o.OK() {
		return "formatted render failed: " + o.String()
	}
	toks, _, nerr := jh.Scan(o.Out, true)
	if nerr != 0 || len(toks) != 4 || toks[3].Tok != token.STRING {
		return fmt.Sprintf("formatted output %q is not `var x = <string>`", o.Out)
	}
	if v, err := strconv.Unquote(toks[3].Lit); err != nil || v != s {
		return fmt.Sprintf("formatted literal %s has value %q, want %q", toks[3].Lit, v, s)
	}
	return ""
}

func c12Rune(r rune) string {
	o := jh.Raw(jen.Var().Id("x").Op("=").LitRune(r))
	if !o.OK() {
		return "render failed: " + o.String()
	}
	toks, _, nerr := jh.Scan(o.Out, true)
	if nerr != 0 || len(toks) != 4 || toks[0].Tok != token.VAR || toks[2].Tok != token.ASSIGN || toks[3].Tok != token.CHAR {
		return fmt.Sprintf("output %q is not `var x = <char>` (%d scanner errors)", o.Out, nerr)
	}
	lit := toks[3].Lit
	v, _, tail, err := strconv.UnquoteChar(lit[1:len(lit)-1], '\'')
	if err != nil || tail != "" || v != r {
		return fmt.Sprintf("rune literal %s has value %U, want %U", lit, v, r)
	}
	return ""
}

var byteType = types.Universe.Lookup("byte").Type()

func c12Byte(b byte) string {
	o := jh.CatchOutcome(func() jh.Outcome { return jh.Raw(jen.Var().Id("x").Op("=").LitByte(b)) })
	if !o.OK() {
		return "build or render failed: " + o.String()
	}
	const pre = "var x = "
	if len(o.Out) < len(pre) || o.Out[:len(pre)] != pre {
		return fmt.Sprintf("unexpected output %q", o.Out)
	}
	tv, err := types.Eval(token.NewFileSet(), nil, token.NoPos, o.Out[len(pre):])
	if err != nil {
		return fmt.Sprintf("%q does not evaluate: %v", o.Out, err)
	}
	if tv.Value == nil || !types.Identical(tv.Type, byteType) {
		return fmt.Sprintf("%q has type %v, want constant of type byte", o.Out, tv.Type)
	}
	if !constant.Compare(tv.Value, token.EQL, constant.MakeInt64(int64(b))) {
		return fmt.Sprintf("%q has value %v, want %d", o.Out, tv.Value, b)
	}
	// the function form must agree
	o2 := jh.Raw(jen.Var().Id("x").Op("=").LitByteFunc(func() byte { return b }))
	if o2.Key() != o.Key() {
		return fmt.Sprintf("LitByteFunc renders %q, LitByte %q", o2, o)
	}
	return ""
}

func c12Trivial(s string) bool {
	for i := 0; i < len(s); i++ {
		c := s[i]
		if c < 0x20 || c > 0x7e || c == '"' || c == '\\' || c == '`' {
			return false
		}
	}
	return true
}

func runC12(r *ev.Recorder) {
	maxLen := 4
	runeLimit := rune(0x3000)
	if r.Tier == ev.Thorough {
		maxLen = 5
		runeLimit = utf8.MaxRune + 1
		r.SetDeadline(25 * 60 * 1e9)
	} else {
		r.SetDeadline(4 * 60 * 1e9)
	}
	r.Rule = fmt.Sprintf("LitByte: all 256 bytes (go/types evaluation). LitRune: every valid code point below %U plus plane boundaries, surrogate edges and the first, second and last code point of every range of every Unicode category table. "+
		"Lit(string): every byte string of length <= 2 over all 256 byte values (raw and gofmt-formatted), and every string of length <= %d over %d representative units "+
		"in %d syntactic contexts (raw output scanned with go/scanner against the token skeleton of the same statement with an identifier in the hole; strconv.Unquote == input). "+
		"Also strings of 255 .. 1 MiB bytes (all byte values cycling, the units cycling, letters), and Files holding 40..5000 distinct string literals followed by repeats of the oldest: every literal token in order keeps its own value. distinct_nontrivial counts distinct inputs that need escaping or a raw/escaped choice (any byte outside printable ASCII, or a quote, backquote or backslash)", runeLimit, maxLen, len(c12Units), len(c12Contexts))
	r.Assume = []string{"go/scanner, strconv.Unquote and go/types of the installed toolchain define what a literal's value is",
		"strings longer than the stated bounds or using other characters than the 26 units are outside the bound"}

	fail := func(c c12Case, msg string) {
		sig := "c12:" + c.Kind
		what := ""
		switch c.Kind {
		case "string":
			b, _ := hex.DecodeString(c.Hex)
			if c.Ctx < 0 {
				what = fmt.Sprintf("Lit(%q) formatted: %s", string(b), msg)
			} else {
				what = fmt.Sprintf("Lit(%q) in context %s: %s", string(b), c12Contexts[c.Ctx%len(c12Contexts)].name, msg)
			}
		case "rune":
			what = fmt.Sprintf("LitRune(%U): %s", c.Rune, msg)
		case "byte":
			what = fmt.Sprintf("LitByte(%d): %s", c.Byte, msg)
		}
		r.Violate(ev.Violation{Signature: sig, What: what, Case: ev.JSON(c), Detail: msg})
	}

	// bytes
	for b := 0; b < 256; b++ {
		r.Eval(1)
		r.Distinct(fmt.Sprintf("byte:%d", b))
		if msg := c12Byte(byte(b)); msg != "" {
			fail(c12Case{Kind: "byte", Byte: b}, msg)
		}
	}
	r.Sample(map[string]any{"LitByte": 200, "renders": jh.Raw(jen.LitByte(200)).Out})

	// runes
	var runes []rune
	for x := rune(0); x < runeLimit; x++ {
		if utf8.ValidRune(x) {
			runes = append(runes, x)
		}
	}
	if runeLimit <= utf8.MaxRune {
		for p := rune(1); p <= 0x10; p++ {
			for _, d := range []rune{-2, -1, 0, 1} {
				if x := p<<16 + d; x >= runeLimit && utf8.ValidRune(x) {
					runes = append(runes, x)
				}
			}
		}
		// the first, second and last code point of every range of every Unicode category table
		for _, tab := range unicode.Categories {
			for _, rg := range tab.R16 {
				runes = append(runes, rune(rg.Lo), rune(rg.Lo)+rune(rg.Stride), rune(rg.Hi))
			}
			for _, rg := range tab.R32 {
				runes = append(runes, rune(rg.Lo), rune(rg.Lo)+rune(rg.Stride), rune(rg.Hi))
			}
		}
		runes = append(runes, 0xD7FF, 0xE000, 0xFFFD, 0xFFFE, 0xFFFF, utf8.MaxRune, 0xFEFF, 0xFFF9, 0xE0001, 0xF0000, 0x1F600, 0x3000, 0xFDD0, 0xAD, 0x061C, 0x180E)
	}
	explore.Range(int64(len(runes)), 0, r.Expired, func(_ int, i int64) {
		x := runes[i]
		if !utf8.ValidRune(x) {
			return // surrogates are no code points
		}
		r.Eval(1)
		if x < 0x20 || x > 0x7e || x == '\'' || x == '\\' {
			r.Distinct(fmt.Sprintf("rune:%d", x))
		}
		if msg := c12Rune(x); msg != "" {
			fail(c12Case{Kind: "rune", Rune: x}, msg)
		}
	})
	r.Count("runes", int64(len(runes)))
	r.Sample(map[string]any{"LitRune": "U+2028", "renders": jh.Raw(jen.LitRune(0x2028)).Out})

	// all byte strings of length <= 2
	explore.Range(1+256+65536, 0, r.Expired, func(_ int, i int64) {
		var s string
		switch {
		case i == 0:
		case i <= 256:
			s = string([]byte{byte(i - 1)})
		default:
			j := i - 257
			s = string([]byte{byte(j >> 8), byte(j)})
		}
		r.Eval(2)
		if !c12Trivial(s) {
			r.Distinct("s:" + s)
		}
		if msg := c12String(s, 0); msg != "" {
			fail(c12Case{Kind: "string", Hex: hex.EncodeToString([]byte(s)), Ctx: 0}, msg)
		}
		if msg := c12Formatted(s); msg != "" {
			fail(c12Case{Kind: "string", Hex: hex.EncodeToString([]byte(s)), Ctx: -1}, msg)
		}
	})
	r.Count("byte_strings_len_le_2", 1+256+65536)

	// string, rune and byte literals appended to clones of one prefix (prefix lengths 1..12, so with
	// and without spare capacity), all built before any is rendered
	for n := 1; n <= 12; n++ {
		prefix := jen.Id("p0")
		head := "p0"
		for i := 1; i < n; i++ {
			prefix.Dot(fmt.Sprintf("p%d", i))
			head += fmt.Sprintf(" . p%d", i)
		}
		strs := []string{"one", "two", "a\"b", "`", "\x00\xff", ""}
		var sts []*jen.Statement
		var wants []string
		for _, v := range strs {
			sts = append(sts, prefix.Clone().Op("=").Lit(v))
			wants = append(wants, head+" = "+jh.Raw(jen.Lit(v)).Out)
		}
		sts = append(sts, prefix.Clone().Op("=").LitRune('x'), prefix.Clone().Op("=").LitByte(7))
		wants = append(wants, head+" = "+jh.Raw(jen.LitRune('x')).Out, head+" = "+jh.Raw(jen.LitByte(7)).Out)
		for i, st := range sts {
			got := jh.Raw(st)
			r.Eval(1)
			r.Distinct(fmt.Sprintf("clone-prefix-%d-%d", n, i))
			if !got.OK() || got.Out != wants[i] {
				r.Violate(ev.Violation{Signature: "c12:literal-on-clone", What: fmt.Sprintf("prefix of %d items cloned %d times, a literal appended to each: clone %d renders %q, want %q", n, len(sts), i, got, wants[i]), Case: ev.JSON(c12Case{Kind: "clone"})})
			}
		}
	}

	// string literals appended to statements built by Add(parts...) from ONE slice with spare capacity
	for extra := 0; extra <= 3; extra++ {
		for n := 1; n <= 4; n++ {
			parts := make([]jen.Code, 0, n+extra)
			head := ""
			for i := 0; i < n; i++ {
				parts = append(parts, jen.Id(fmt.Sprintf("p%d", i)))
				head += fmt.Sprintf("p%d ", i)
			}
			strs := []string{"one", "two", "`", ""}
			var sts []*jen.Statement
			for _, v := range strs {
				sts = append(sts, jen.Add(parts...).Lit(v))
			}
			for i, st := range sts {
				got, want := jh.Raw(st), head+jh.Raw(jen.Lit(strs[i])).Out
				r.Eval(1)
				r.Distinct(fmt.Sprintf("add-spread-%d-%d-%d", extra, n, i))
				if !got.OK() || got.Out != want {
					r.Violate(ev.Violation{Signature: "c12:literal-after-spread-slice", What: fmt.Sprintf("Add(parts...) of one slice (len %d, cap %d) used %d times, Lit(%q) appended to use %d: renders %q, want %q", n, n+extra, len(strs), strs[i], i, got, want), Case: ev.JSON(c12Case{Kind: "clone"})})
				}
			}
		}
	}

	// strings, runes and bytes handed over through the ...Func constructors from a cursor that moves
	// on straight after the call: the literal is the value at the time of the call
	{
		var cur string
		var curR rune
		var curB byte
		var sts []*jen.Statement
		var wants []string
		for _, v := range []string{"one", "a\"b", "`", "\x00\xff", "", "%d"} {
			cur = v
			sts = append(sts, jen.LitFunc(func() interface{} { return cur }))
			wants = append(wants, jh.Raw(jen.Lit(v)).Out)
		}
		for _, v := range []rune{'a', '\'', 0x2028, 0x10FFFF} {
			curR = v
			sts = append(sts, jen.LitRuneFunc(func() rune { return curR }))
			wants = append(wants, jh.Raw(jen.LitRune(v)).Out)
		}
		for _, v := range []byte{0, '\'', 0xff} {
			curB = v
			sts = append(sts, jen.LitByteFunc(func() byte { return curB }))
			wants = append(wants, jh.Raw(jen.LitByte(v)).Out)
		}
		cur, curR, curB = "moved on", 'm', 'm'
		for i, st := range sts {
			got := jh.Raw(st)
			r.Eval(1)
			r.Distinct(fmt.Sprintf("func-cursor-%d", i))
			if !got.OK() || got.Out != wants[i] {
				r.Violate(ev.Violation{Signature: "c12:func-constructor-cursor", What: fmt.Sprintf("literal %d built through a ...Func constructor from a cursor renders %q, want %q", i, got, wants[i]), Case: ev.JSON(c12Case{Kind: "clone"})})
			}
		}
	}

	// long strings: cycling through all 256 byte values / the units, lengths up to 1 MiB
	for _, n := range []int{255, 256, 257, 4095, 4096, 65535, 65536, 65537, 1 << 20} {
		for kind := 0; kind < 3; kind++ {
			buf := make([]byte, 0, n+8)
			for i := 0; len(buf) < n; i++ {
				switch kind {
				case 0:
					buf = append(buf, byte(i))
				case 1:
					buf = append(buf, c12Units[i%len(c12Units)]...)
				default:
					buf = append(buf, 'a'+byte(i%26))
				}
			}
			sv := string(buf[:n])
			r.Eval(1)
			r.Distinct(fmt.Sprintf("long-%d-%d", n, kind))
			if msg := c12String(sv, 1); msg != "" {
				r.Violate(ev.Violation{Signature: "c12:long-string", What: fmt.Sprintf("Lit(string of %d bytes, kind %d): %s", n, kind, jh.Short(msg, 300)), Case: ev.JSON(c12Case{Kind: "many", Byte: n}), Detail: jh.Short(msg, 2000)})
			}
		}
	}

	// many literals in ONE File (and repeats of earlier ones): every literal token, in order,
	// must still have exactly its own value
	for _, n := range []int{40, 300, 1000, 5000} {
		var want []string
		f := jen.NewFile("p")
		f.NoFormat = true
		var items []jen.Code
		// (double spaces, a trailing backslash on every third entry, quotes, newline, an invalid byte)
		mkstr := func(i int) string {
			s := fmt.Sprintf("entry  %d \" \n \xff  %s", i, c12Units[i%len(c12Units)])
			if i%3 == 1 {
				s += "  C:\\dir\\"
			}
			return s
		}
		for i := 0; i < n; i++ {
			want = append(want, mkstr(i))
			items = append(items, jen.Lit(mkstr(i)))
		}
		for i := 0; i < 80 && i < n; i++ { // repeats, oldest first
			want = append(want, mkstr(i))
			items = append(items, jen.Lit(mkstr(i)))
		}
		f.Var().Id("table").Op("=").Index().String().Values(items...)
		o := jh.RenderFile(f)
		r.Eval(int64(len(want)))
		r.Distinct(fmt.Sprintf("many-literals-%d", n))
		msg := ""
		if !o.OK() {
			msg = "render failed: " + jh.Short(o.String(), 200)
		} else {
			toks, _, nerr := jh.Scan(o.Out, true)
			var got []string
			for _, t := range toks {
				if t.Tok == token.STRING {
					v, _ := strconv.Unquote(t.Lit)
					got = append(got, v)
				}
			}
			if nerr != 0 || len(got) != len(want) {
				msg = fmt.Sprintf("%d scanner errors, %d string literals, want %d", nerr, len(got), len(want))
			} else {
				for i := range want {
					if got[i] != want[i] {
						msg = fmt.Sprintf("literal #%d of %d in one File has value %q, want %q", i, len(want), got[i], want[i])
						break
					}
				}
			}
		}
		if msg != "" {
			r.Violate(ev.Violation{Signature: "c12:many-literals-in-one-file", What: fmt.Sprintf("a File with %d distinct string literals followed by repeats of the first 80: %s", n, msg), Case: ev.JSON(c12Case{Kind: "many", Byte: n}), Detail: msg})
		}
	}

	// strings over the representative units
	n := int64(len(c12Units))
	var total int64 = 0
	pow := int64(1)
	offsets := []int64{0}
	for l := 1; l <= maxLen; l++ {
		pow *= n
		total += pow
		offsets = append(offsets, total)
	}
	done := explore.Range(total, 0, r.Expired, func(_ int, i int64) {
		l := 1
		for i >= offsets[l] {
			l++
		}
		j := i - offsets[l-1]
		buf := make([]byte, 0, 4*l)
		for k := 0; k < l; k++ {
			buf = append(buf, c12Units[j%n]...)
			j /= n
		}
		s := string(buf)
		if !c12Trivial(s) {
			r.Distinct("s:" + s)
		}
		for ctx := range c12Contexts {
			r.Eval(1)
			if msg := c12String(s, ctx); msg != "" {
				fail(c12Case{Kind: "string", Hex: hex.EncodeToString(buf), Ctx: ctx}, msg)
			}
		}
		if i%100003 == 0 && r.WantSample() {
			r.Sample(map[string]any{"Lit": s, "context": "dictkey", "renders": jh.Raw(c12Contexts[2].build(jen.Lit(s))).Out})
		}
	})
	r.Count("unit_strings", total)
	if !done {
		r.NotExhaustive("deadline reached inside the unit-string enumeration")
	}
}

func replayC12(raw json.RawMessage) (bool, string) {
	var c c12Case
	if err := json.Unmarshal(raw, &c); err != nil {
		return true, "bad case: " + err.Error()
	}
	var msg string
	switch c.Kind {
	case "many":
		return true, "the many-literals case is replayed by running the check"
	case "string":
		b, _ := hex.DecodeString(c.Hex)
		if c.Ctx < 0 {
			msg = c12Formatted(string(b))
		} else {
			msg = c12String(string(b), c.Ctx)
		}
	case "rune":
		msg = c12Rune(c.Rune)
	case "byte":
		msg = c12Byte(byte(c.Byte))
	}
	return msg == "", fmt.Sprintf("case %s: %s", raw, msg)
}
