package checks

import (
	"encoding/json"
	"fmt"
	"regexp"
	"strings"
	"sync"

	"verif/internal/ev"
	"verif/internal/explore"
	"verif/internal/imp"
	"verif/internal/statespace"
)

// Shared scenario machinery for the import-table properties (C03 C04 C05 C06 C19).
//
// Before a File is rendered, the operations on it touch disjoint fields: ImportName/ImportAlias/
// ImportNames write the hints map (last writer per path wins), Anon writes '_' entries into the
// import table, PackagePrefix is a field, and Qual only appends tokens to the body; names are
// assigned lazily, in body order, when the File is rendered. A pre-render history is therefore
// characterised by (final hint per path, anonymous set, prefix, ordered reference sequence) - its
// canonical form. The checks enumerate canonical forms exhaustively within bounds (E1), and a
// breadth-first search over the raw operations in every order (E2) checks on the real code that
// histories with the same canonical form do reach the same File state and output.

// hintOpt is one way of hinting a path.
type hintOpt struct {
	kind  string // "", "name", "alias", "name-then-alias", "alias-then-name"
	alias string
}

func (h hintOpt) String() string {
	switch h.kind {
	case "":
		return "none"
	case "name":
		return "ImportName"
	case "alias":
		return "ImportAlias(" + h.alias + ")"
	case "name-then-alias":
		return "ImportName;ImportAlias(" + h.alias + ")"
	case "alias-then-name":
		return "ImportAlias(" + h.alias + ");ImportName"
	}
	return "?"
}

func (h hintOpt) apply(w *imp.World, p string) {
	switch h.kind {
	case "name":
		w.Name(p)
	case "alias":
		w.Alias(p, h.alias)
	case "name-then-alias":
		w.Name(p)
		w.Alias(p, h.alias)
	case "alias-then-name":
		w.Alias(p, h.alias)
		w.Name(p)
	}
}

// family is one alphabet of paths competing for related names.
type family struct {
	name     string
	ctors    []string // constructors to choose from (first = default)
	local    string
	paths    []string
	names    map[string]string // declared names of non-std packages that ImportName may state
	aliases  []string          // alias pool for ImportAlias
	prefixes []string          // PackagePrefix values to choose from besides ""
	maxRefs  int
	freeRefs int   // reference sequences up to this length cost nothing
	doubles  bool  // include double hints (name then alias, alias then name)
	extra    bool  // include one extra hinted/anonymous path that may stay unreferenced
	last     bool  // include "hints applied after the references"
	wrappers []int // wrappers to choose from (first = default)
	anon     bool  // whether paths may be made anonymous
	preamble []string
	// preambleOpts: alternative cgo preamble lists to choose from (first = default)
	preambleOpts [][]string
	// bigHints: a table of (mostly unused) paths that may be given to ImportNames in one call
	bigHints []string
	// canon: values File.CanonicalPath may be set to (besides leaving it empty)
	canon []string
	// rehint: after a first render, every dot-imported path that was referenced may be hinted again
	// as something else; having been rendered bare it stays a dot-import
	rehint bool
	// noFormat: File.NoFormat may be set
	noFormat bool
	// lateNames: after a first render, ImportName may be called for every referenced path whose
	// name is known (a registered path keeps the name it was rendered under)
	lateNames bool
	// lateAlias: after a first render, ImportAlias(p, first alias of the pool) may be called for every
	// referenced path (a registered path keeps the name it was rendered under)
	lateAlias bool
	// oneDict: the references may also be put, all together, into one Dict (as values / as keys)
	oneDict bool
}

func (fam *family) hintOpts(p string) []hintOpt {
	opts := []hintOpt{{}}
	_, hasName := fam.names[p]
	if hasName {
		opts = append(opts, hintOpt{kind: "name"})
	}
	for _, a := range fam.aliases {
		opts = append(opts, hintOpt{kind: "alias", alias: a})
	}
	if fam.doubles && hasName && len(fam.aliases) > 0 {
		opts = append(opts, hintOpt{kind: "name-then-alias", alias: fam.aliases[0]}, hintOpt{kind: "alias-then-name", alias: fam.aliases[0]})
	}
	return opts
}

// scenario builds one world from choice points: structural choices (how many references, to
// which paths) are free; every non-default setting (a hint, an anonymous import, a prefix, a
// non-plain wrapper, a non-default constructor, hints applied after the references, an extra
// hinted-but-unused path) costs one deviation.
func (fam *family) scenario(c *explore.Ctx) *imp.World {
	ctor := fam.ctors[0]
	if len(fam.ctors) > 1 {
		ctor = fam.ctors[c.Choose(len(fam.ctors))]
	}
	w := imp.New(ctor, fam.local, imp.DefaultTrueName(fam.names))
	// reference sequences up to freeRefs long are free; each further reference costs a deviation
	nrefs := 1
	if fam.freeRefs > 1 {
		nrefs += c.ChooseCost(fam.freeRefs, 0)
	}
	for nrefs >= fam.freeRefs && nrefs < fam.maxRefs && c.Bool() {
		nrefs++
	}
	var seq []string
	for i := 0; i < nrefs; i++ {
		seq = append(seq, fam.paths[c.ChooseCost(len(fam.paths), 0)])
	}
	var distinct []string
	seen := map[string]bool{}
	for _, p := range seq {
		if !seen[p] {
			seen[p] = true
			distinct = append(distinct, p)
		}
	}
	type setting struct {
		path string
		hint hintOpt
		anon bool
	}
	var settings []setting
	for _, p := range distinct {
		s := setting{path: p}
		opts := fam.hintOpts(p)
		s.hint = opts[c.Choose(len(opts))]
		if fam.anon {
			s.anon = c.Bool()
		}
		settings = append(settings, s)
	}
	// one extra path that is hinted or anonymous but (possibly) never referenced
	if fam.extra {
		if extra := c.Choose(len(fam.paths) + 1); extra > 0 {
			p := fam.paths[extra-1]
			opts := fam.hintOpts(p)
			k := c.ChooseCost(len(opts), 0)
			if k == 0 && fam.anon {
				settings = append(settings, setting{path: p, anon: true})
			} else {
				settings = append(settings, setting{path: p, hint: opts[k]})
			}
		}
	}
	hintsLast := fam.last && c.Bool()
	prefix := ""
	// when the prefix is set: 0 = with the other settings, 1 = after the references, 2 = after the
	// references and a first render, 3 = set with the other settings, then cleared after the
	// references and a first render
	timing := 0
	if len(fam.prefixes) > 0 {
		if k := c.Choose(len(fam.prefixes) + 1); k > 0 {
			prefix = fam.prefixes[k-1]
			timing = c.Choose(4)
		}
	}
	applySettings := func() {
		for _, s := range settings {
			s.hint.apply(w, s.path)
			if s.anon {
				w.AnonImport(s.path)
			}
		}
	}
	if len(fam.canon) > 0 {
		if k := c.Choose(len(fam.canon) + 1); k > 0 {
			w.F.CanonicalPath = fam.canon[k-1]
			w.Log = append(w.Log, fmt.Sprintf("CanonicalPath=%q", fam.canon[k-1]))
		}
	}
	// a large name table first (so that later hints for the same paths override it)
	if len(fam.bigHints) > 0 && c.Bool() {
		w.Names(fam.bigHints...)
	}
	if !hintsLast {
		applySettings()
	}
	if prefix != "" && ((!hintsLast && timing == 0) || timing == 3) {
		w.Prefix(prefix)
	}
	pre := fam.preamble
	if len(fam.preambleOpts) > 0 {
		pre = fam.preambleOpts[c.Choose(len(fam.preambleOpts))]
	}
	for _, p := range pre {
		w.CgoPreamble(p)
	}

	inDict := 0
	if fam.oneDict && len(seq) > 1 {
		inDict = c.Choose(3)
	}
	if inDict > 0 {
		w.RefsInOneDict(seq, inDict == 2)
	} else {
		for _, p := range seq {
			wi := fam.wrappers[0]
			if len(fam.wrappers) > 1 {
				wi = fam.wrappers[c.Choose(len(fam.wrappers))]
			}
			w.Ref(p, wi)
		}
	}
	if hintsLast {
		applySettings()
	}
	switch {
	case prefix == "":
	case timing == 0 && hintsLast, timing == 1:
		w.Prefix(prefix)
	case timing == 2:
		w.MidRender()
		w.Prefix(prefix)
	case timing == 3:
		w.MidRender()
		w.Prefix("")
	}
	if fam.noFormat && c.Bool() {
		w.F.NoFormat = true
		w.Log = append(w.Log, "NoFormat=true")
	}
	if fam.lateNames && c.Bool() {
		w.MidRender()
		for _, p := range distinct {
			if _, ok := fam.names[p]; ok && !w.Dot[p] {
				w.F.ImportName(p, w.TrueName(p))
				w.Log = append(w.Log, fmt.Sprintf("ImportName(%q,%q) after the render", p, w.TrueName(p)))
			}
		}
	}
	if fam.lateAlias && len(fam.aliases) > 0 && c.Bool() {
		w.MidRender()
		for _, p := range distinct {
			if !w.Dot[p] && p != "C" {
				w.F.ImportAlias(p, fam.aliases[0])
				w.Log = append(w.Log, fmt.Sprintf("ImportAlias(%q,%q) after the render", p, fam.aliases[0]))
			}
		}
	}
	if fam.rehint && c.Bool() {
		w.MidRender()
		for _, p := range distinct {
			if w.Dot[p] {
				// straight on the File: the world keeps regarding the path as dot-imported
				w.F.ImportAlias(p, "z9")
				w.Log = append(w.Log, fmt.Sprintf("ImportAlias(%q,\"z9\") after the render", p))
			}
		}
	}
	return w
}

var digitsRe = regexp.MustCompile(`[0-9]+`)
var quotedRe = regexp.MustCompile(`"[^"]*"`)

// problemKind classifies an oracle message into a coarse signature.
func problemKind(msg string) string {
	m := msg
	if i := strings.Index(m, "type error: "); i >= 0 {
		m = m[i+len("type error: "):]
		// drop position
		if j := strings.Index(m, ": "); j >= 0 && j < 16 {
			m = m[j+2:]
		}
		switch {
		case strings.Contains(m, "redeclared"):
			return "type:redeclared"
		case strings.Contains(m, "imported and not used"):
			return "type:unused-import"
		case strings.Contains(m, "undefined"), strings.Contains(m, "undeclared"):
			return "type:undefined"
		case strings.Contains(m, "not exported") || strings.Contains(m, "not declared by package"):
			return "type:wrong-package"
		}
		return "type:other"
	}
	m = quotedRe.ReplaceAllString(m, "Q")
	m = digitsRe.ReplaceAllString(m, "N")
	if len(m) > 60 {
		m = m[:60]
	}
	return m
}

// renderAnalyze renders the world's File once and analyses the output; problems of rendering
// itself (error, panic, unparsable output) are returned as a message.
func renderAnalyze(w *imp.World) (*imp.Analysis, string) {
	if len(w.MidProblems) > 0 {
		return nil, shortErr(w.MidProblems[0])
	}
	o := w.Render()
	if !o.OK() {
		return nil, "render failed: " + shortErr(o.String())
	}
	a, err := imp.Analyze(o.Out, w)
	if err != nil {
		return nil, fmt.Sprintf("output does not parse: %v\n%s", err, o.Out)
	}
	return a, ""
}

func shortErr(s string) string {
	if i := strings.Index(s, "while formatting source"); i > 0 {
		return s[:i] + "while formatting source: …" + tailLines(s, 12)
	}
	if len(s) > 600 {
		return s[:600] + "…"
	}
	return s
}

func tailLines(s string, n int) string {
	ls := strings.Split(strings.TrimRight(s, "\n"), "\n")
	if len(ls) > n {
		ls = ls[:n]
	}
	return "\n" + strings.Join(ls, "\n")
}

// ---- raw-operation BFS shared by the import-table checks

type rawOp struct {
	name string
	do   func(w *imp.World)
}

type rawSystem struct {
	ctor, local string
	ops         []rawOp
	tn          func(string) string
}

// newRawSystem builds the operation alphabet: for every path ImportName (when a true name is
// known), ImportAlias for every alias of the pool, Anon (if anon), one reference per wrapper;
// plus PackagePrefix and any extra operations.
func newRawSystem(ctor, local string, paths []string, names map[string]string, aliases []string, wrappers []int, anon bool, prefix string, extra ...rawOp) *rawSystem {
	sys := &rawSystem{ctor: ctor, local: local, tn: imp.DefaultTrueName(names)}
	for _, p := range paths {
		p := p
		if _, ok := names[p]; ok {
			sys.ops = append(sys.ops, rawOp{"ImportName(" + p + ")", func(w *imp.World) { w.Name(p) }})
		}
		for _, a := range aliases {
			a := a
			sys.ops = append(sys.ops, rawOp{"ImportAlias(" + p + "," + a + ")", func(w *imp.World) { w.Alias(p, a) }})
		}
		if anon {
			sys.ops = append(sys.ops, rawOp{"Anon(" + p + ")", func(w *imp.World) { w.AnonImport(p) }})
		}
		for _, wi := range wrappers {
			wi := wi
			sys.ops = append(sys.ops, rawOp{"Ref(" + p + "," + imp.Wrappers[wi].Name + ")", func(w *imp.World) { w.Ref(p, wi) }})
		}
	}
	if prefix != "" {
		sys.ops = append(sys.ops, rawOp{"PackagePrefix=" + prefix, func(w *imp.World) { w.Prefix(prefix) }})
	}
	sys.ops = append(sys.ops, extra...)
	return sys
}

func (sys *rawSystem) build(hist []int) *imp.World {
	w := imp.New(sys.ctor, sys.local, sys.tn)
	for _, i := range hist {
		sys.ops[i].do(w)
	}
	return w
}

// impCheck is the common shape of an import-table check: a raw-operation BFS plus canonical
// scenarios of path families, judged by the property's oracle.
type impCheck struct {
	id         string
	judge      func(a *imp.Analysis, w *imp.World) []string
	sys        *rawSystem
	fams       []*family
	bfsDepth   [2]int // quick, thorough
	dev        [2]int
	nontrivial func(a *imp.Analysis, w *imp.World) bool
	// tolerateFailure: worlds whose render may legitimately fail (then nothing else is judged)
	tolerateFailure func(w *imp.World) bool
}

func (ic *impCheck) judgeWorld(w *imp.World) (*imp.Analysis, []string) {
	a, msg := renderAnalyze(w)
	if a == nil {
		if ic.tolerateFailure != nil && (strings.HasPrefix(msg, "render failed: ERROR") || strings.HasPrefix(msg, "intermediate render failed: ERROR") || w.F.NoFormat && strings.HasPrefix(msg, "output does not parse")) && ic.tolerateFailure(w) {
			return nil, nil
		}
		return nil, []string{msg}
	}
	return a, ic.judge(a, w)
}

func (ic *impCheck) run(r *ev.Recorder) {
	ti := 0
	if r.Tier == ev.Thorough {
		ti = 1
		r.SetDeadline(45 * 60 * 1e9)
	} else {
		r.SetDeadline(6 * 60 * 1e9)
	}
	lid := strings.ToLower(ic.id)
	var mu sync.Mutex
	one := func(w *imp.World, c impCase, sig string, wantSample bool) {
		r.Eval(1)
		a, probs := ic.judgeWorld(w)
		if a != nil && ic.nontrivial(a, w) {
			r.Distinct(a.Src)
			if wantSample && r.WantSample() {
				mu.Lock()
				r.Sample(map[string]any{"operations": w.Log, "output": a.Src})
				mu.Unlock()
			}
		}
		if len(probs) > 0 {
			c.Ops = w.Log
			r.Violate(ev.Violation{Signature: lid + ":" + sig + ":" + problemKind(probs[0]), What: fmt.Sprintf("%v: %s", w.Log, probs[0]),
				Case: ev.JSON(c), Detail: strings.Join(probs, "\n")})
		}
	}
	if ic.sys != nil {
		res := statespace.Search(statespace.System{
			Tick:   r.Tick,
			NumOps: len(ic.sys.ops), MaxDepth: ic.bfsDepth[ti], Stop: r.Expired,
			Step: func(hist []int) (string, bool) {
				w := ic.sys.build(hist)
				return imp.Key(w.F), true
			},
			Invariant: func(hist []int) {
				one(ic.sys.build(hist), impCase{BFS: hist}, "bfs", len(hist) == ic.bfsDepth[ti])
			},
		})
		r.Note("states", res.States)
		r.Note("transitions", res.Transitions)
		r.Note("traces_validated_against_impl", res.Transitions)
		r.Note("bfs_depth_completed", res.Depth)
		r.Note("bfs_states_per_depth", res.PerDepth)
		r.Note("bfs_operations", len(ic.sys.ops))
		if !res.Complete {
			r.NotExhaustive("BFS stopped before its depth bound")
		}
	}
	perFam := map[string]any{}
	for _, fam := range ic.fams {
		fam := fam
		st := explore.Explore(explore.Options{MaxDev: ic.dev[ti], Stop: r.Expired}, func(c *explore.Ctx) {
			w := fam.scenario(c)
			one(w, impCase{Family: fam.name, Vector: c.Vector()}, fam.name, c.Devs == 2)
		})
		perFam[fam.name] = map[string]any{"executions": st.Executions, "per_deviation_level": st.PerLevel, "complete": st.Complete}
		if !st.Complete {
			r.NotExhaustive("family " + fam.name + " stopped at the deadline")
		}
	}
	r.Note("families", perFam)
}

func (ic *impCheck) replay(raw json.RawMessage) (bool, string) {
	return replayImp(ic.fams, ic.sys, func(w *imp.World) []string {
		_, probs := ic.judgeWorld(w)
		return probs
	}, raw)
}
