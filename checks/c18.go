package checks

import (
	"encoding/json"
	"fmt"
	"go/ast"
	"go/parser"
	"go/token"
	"os"
	"os/exec"
	"path/filepath"
	"regexp"
	"runtime"
	"sort"
	"strconv"
	"strings"

	"github.com/dave/jennifer/jen"

	"verif/internal/ev"
	"verif/internal/explore"
	"verif/internal/imp"
	"verif/internal/jh"
)

// C18: standard-library packages are referred to by their real names.

func init() {
	register(&Check{ID: "C18", Level: "exploration", Run: runC18, Replay: replayC18})
}

// stdPackages parses the package clauses below goroot/src: import path -> declared name.
func stdPackages(goroot string) map[string]string {
	return packagesBelow(filepath.Join(goroot, "src"))
}

// vendoredStdPackages: the packages vendored into the standard library (GOROOT/src/vendor), by
// their unvendored import path.
func vendoredStdPackages(goroot string) map[string]string {
	return packagesBelow(filepath.Join(goroot, "src", "vendor"))
}

func packagesBelow(src string) map[string]string {
	out := map[string]string{}
	if real, err := filepath.EvalSymlinks(src); err == nil {
		src = real
	}
	filepath.Walk(src, func(p string, info os.FileInfo, err error) error {
		if err != nil || !info.IsDir() {
			return nil
		}
		rel, _ := filepath.Rel(src, p)
		base := filepath.Base(p)
		if rel == "." {
			return nil
		}
		if rel == "cmd" || base == "vendor" || base == "testdata" || strings.HasPrefix(base, "_") || (strings.HasPrefix(base, ".") && rel != ".") {
			return filepath.SkipDir
		}
		if rel == "." {
			return nil
		}
		ents, _ := os.ReadDir(p)
		counts := map[string]int{}
		for _, e := range ents {
			n := e.Name()
			if e.IsDir() || !strings.HasSuffix(n, ".go") || strings.HasSuffix(n, "_test.go") {
				continue
			}
			fset := token.NewFileSet()
			f, err := parser.ParseFile(fset, filepath.Join(p, n), nil, parser.PackageClauseOnly|parser.ParseComments)
			if err != nil {
				continue
			}
			ignore := false
			for _, cg := range f.Comments {
				for _, c := range cg.List {
					if c.Pos() < f.Package && strings.HasPrefix(c.Text, "//go:build") && strings.Contains(c.Text, "ignore") {
						ignore = true
					}
				}
			}
			if !ignore && f.Name.Name != "main" {
				counts[f.Name.Name]++
			}
		}
		best, bn := "", 0
		for n, c := range counts {
			if c > bn || (c == bn && n < best) {
				best, bn = n, c
			}
		}
		if best != "" {
			out[filepath.ToSlash(rel)] = best
		}
		return nil
	})
	return out
}

type c18Case struct {
	Goroot   string   `json:"goroot"`
	Paths    []string `json:"paths"`
	Scenario string   `json:"scenario"`
	Desc     string   `json:"description"`
}

var c18Scenarios = []string{"next-to-a-third-party-import", "aliased-next-to-a-third-party-import", "after-two-third-party-packages-of-the-same-name", "plain", "prefix", "alias=last-element", "alias=real-name", "importname", "anon-then-ref", "dict-value", "file-path-ends-in-package-path", "file-path-is-last-element", "non-ascii-prefix", "non-ascii-alias", "render-then-anon-then-render", "anon-render-ref", "cgo-preamble-without-C-reference"}

func lastElem(p string) string {
	p = strings.TrimSuffix(p, "/")
	if i := strings.LastIndex(p, "/"); i >= 0 {
		return p[i+1:]
	}
	return p
}

// c18World builds a File referencing the paths in order under a scenario.
func c18World(names map[string]string, paths []string, scenario string) *imp.World {
	tn := func(p string) string {
		if n, ok := names[p]; ok {
			return n
		}
		return "zzunknown"
	}
	var w *imp.World
	switch scenario {
	case "file-path-ends-in-package-path":
		w = imp.New("NewFilePath", "example.com/app/internal/"+paths[0], tn)
	case "file-path-is-last-element":
		local := lastElem(paths[0])
		if local == paths[0] {
			local = "x/" + local // a one-element path IS its last element: use a different near miss
		}
		w = imp.New("NewFilePathName", local, tn)
	default:
		w = imp.New("NewFile", "", tn)
	}
	wrapper := 0
	switch scenario {
	case "second-aliased-to-name-of-first":
		w.Alias(paths[1], names[paths[0]])
	case "next-to-a-third-party-import":
		w.Ref("github.com/foo/bar", 0)
	case "aliased-next-to-a-third-party-import":
		w.Ref("github.com/foo/bar", 0)
		w.Alias(paths[0], "zq")
	case "after-two-third-party-packages-of-the-same-name":
		n := names[paths[0]]
		w.Ref("x0/"+n, 0)
		w.Ref("x1/"+n, 0)
	case "prefix":
		w.Prefix("pkg")
	case "cgo-preamble-without-C-reference":
		w.CgoPreamble("#include <a.h>")
	case "non-ascii-prefix":
		w.Prefix("π")
	case "non-ascii-alias":
		for _, p := range paths {
			w.Alias(p, "é"+names[p])
		}
	case "anon-render-ref":
		w.AnonImport(paths[len(paths)-1])
		w.MidRender()
	case "alias=last-element":
		for _, p := range paths {
			if token.IsIdentifier(lastElem(p)) { // e.g. .../v1.0.0 is no identifier: not a legal alias to ask for
				w.Alias(p, lastElem(p))
			}
		}
	case "alias=real-name":
		for _, p := range paths {
			w.Alias(p, names[p])
		}
	case "importname":
		for _, p := range paths {
			w.Name(p)
		}
	case "anon-then-ref":
		w.AnonImport(paths[0])
	case "dict-value":
		w.AnonImport(paths[0])
		wrapper = imp.WrapperIndex("dictvalue")
	}
	if scenario == "three-imports-then-a-dict-then-the-second" {
		// two third-party packages and the first path are referenced, then a Dict holds the first use
		// of another package (its name sorts before the others'), then come the remaining paths
		w.Ref("x.y/aaa", 0)
		w.Ref("x.y/aab", 0)
		w.Ref(paths[0], 0)
		w.Ref("x.y/aac", imp.WrapperIndex("dictvalue"))
		for _, p := range paths[1:] {
			w.Ref(p, 0)
		}
		return w
	}
	if scenario == "anon-then-fragment" {
		// the path is an anonymous import; a fragment referring to it is rendered with the File (so the
		// File has shown a name for it), then the File's own reference follows
		last := paths[len(paths)-1]
		w.AnonImport(last)
		var b strings.Builder
		jen.Qual(last, "Frag").RenderWithFile(&b, w.F)
		w.Log = append(w.Log, fmt.Sprintf("Qual(%q).RenderWithFile(file) -> %q", last, b.String()))
		for _, p := range paths {
			w.Ref(p, wrapper)
		}
		if q := strings.TrimSuffix(strings.TrimSpace(b.String()), ".Frag"); q != "" {
			w.Expect = map[string]string{last: q}
		}
		return w
	}
	if scenario == "last-reference-shared-with-an-earlier-file" {
		// the statement referring to the last path is first rendered as part of ANOTHER File (in which
		// it is the only import), then added to this one after the other references
		last := paths[len(paths)-1]
		for _, p := range paths[:len(paths)-1] {
			w.Ref(p, wrapper)
		}
		sym := fmt.Sprintf("R%d", len(w.Refs))
		shared := jen.Var().Id("_").Op("=").Qual(last, sym)
		other := jen.NewFile("other")
		other.Add(shared)
		other.GoString()
		_ = fmt.Sprintf("%#v", shared)
		w.Refs = append(w.Refs, imp.Ref{Path: last, Sym: sym, Wrapper: "shared", Rendered: true})
		w.F.Add(shared)
		w.Log = append(w.Log, fmt.Sprintf("Ref(%q) through a statement rendered in another File before", last))
		return w
	}
	for _, p := range paths {
		w.Ref(p, wrapper)
	}
	if scenario == "render-then-anon-then-render" {
		// the names given by the first render survive an Anon of the path registered last
		w.MidRender()
		w.AnonImport(paths[len(paths)-1])
	}
	return w
}

// c18Judge: every spec either carries no alias and the qualifier is the real name, or carries an
// alias equal to the qualifier; everything resolves; names are unique.
func c18Judge(names map[string]string, w *imp.World) []string {
	a, msg := renderAnalyze(w)
	if a == nil {
		return []string{msg}
	}
	var out []string
	symPath := map[string]string{}
	for _, r := range w.Refs {
		symPath[r.Sym] = r.Path
	}
	specs := map[string]imp.Spec{}
	for _, s := range a.Specs {
		specs[s.Path] = s
	}
	for _, u := range a.Uses {
		p := symPath[u.Sym]
		s, ok := specs[p]
		switch {
		case !ok:
			out = append(out, fmt.Sprintf("%q is referenced as %s.%s but not imported", p, u.Qual, u.Sym))
		case s.Name == "" && u.Qual != names[p]:
			out = append(out, fmt.Sprintf("%q is imported without alias but qualified by %q; its real name is %q", p, u.Qual, names[p]))
		case s.Name != "" && s.Name != u.Qual:
			out = append(out, fmt.Sprintf("%q is imported as %q but qualified by %q", p, s.Name, u.Qual))
		}
	}
	// a name the File has shown for a path in a fragment rendered with it stays that path's name
	for p, q := range w.Expect {
		if s, ok := specs[p]; !ok || !(s.Name == q || s.Name == "" && names[p] == q) {
			out = append(out, fmt.Sprintf("a fragment rendered with the File showed %q as %q, but the import block has %v", p, q, s))
		}
	}
	out = append(out, imp.CheckNames(a, w)...)
	out = append(out, imp.CheckResolve(a, w)...)
	return out
}

func guessKey(p string) string {
	s := strings.ToLower(lastElem(p))
	var sb strings.Builder
	for _, r := range s {
		if (r >= 'a' && r <= 'z') || (r >= '0' && r <= '9') {
			sb.WriteRune(r)
		}
	}
	return strings.TrimLeft(sb.String(), "0123456789")
}

// parseNameTable reads `var X = map[string]string{...}` from a Go file.
func parseNameTable(file string) (map[string]string, error) {
	fset := token.NewFileSet()
	f, err := parser.ParseFile(fset, file, nil, 0)
	if err != nil {
		return nil, err
	}
	out := map[string]string{}
	ast.Inspect(f, func(n ast.Node) bool {
		if cl, ok := n.(*ast.CompositeLit); ok {
			if _, ok := cl.Type.(*ast.MapType); ok {
				for _, e := range cl.Elts {
					if kv, ok := e.(*ast.KeyValueExpr); ok {
						k, ok1 := kv.Key.(*ast.BasicLit)
						v, ok2 := kv.Value.(*ast.BasicLit)
						if ok1 && ok2 {
							ks, _ := strconv.Unquote(k.Value)
							vs, _ := strconv.Unquote(v.Value)
							out[ks] = vs
						}
					}
				}
			}
		}
		return true
	})
	return out, nil
}

func runC18(r *ev.Recorder) {
	r.SetDeadline(20 * 60 * 1e9)
	goroots := []string{runtime.GOROOT()}
	if r.Tier == ev.Thorough {
		if _, err := os.Stat("/opt/veriftools/go1.26.8/src"); err == nil {
			goroots = append(goroots, "/opt/veriftools/go1.26.8")
		}
	}
	r.Rule = "every package directory below <GOROOT>/src of the installed toolchain (outside cmd, vendor, testdata; package name = the name its non-test files declare, parsed with go/parser), " +
		"(a) alone under 17 scenarios (in a File with a cgo preamble that never refers to C; a non-ASCII PackagePrefix, a non-ASCII alias, render / Anon of the path / render again, Anon / render / reference; next to a third-party import, aliased next to one, after two third-party packages of the same name, plain, PackagePrefix, ImportAlias = last path element, ImportAlias = real name, truthful ImportName, Anon then reference, Anon then reference inside a Dict value, in a File whose own package path ends in the package path, in a File whose own path is the last element); " +
		"(b) every ordered pair of packages (same-named pairs also: the second reference through a statement that was rendered in another File before; as two stand-alone fragments one after the other), plain, with prefix (ASCII and non-ASCII), and with the second aliased to the name of the first (pairs that share a declared or guessed name - thorough: all pairs - also inside a Dict after Anon, with aliases, Anon then reference, and next to a third-party import); every ordered triple of packages sharing a declared name; " +
		"oracle on the parsed output: the spec of the path has no alias and the qualifier is the declared name, or has an alias equal to the qualifier; names unique; go/types resolves every reference against a fabricated importer declaring the parsed names. " +
		"(c) the repository's gennames tool is built and run under a matrix of its flags (-standard; -novendor on/off; 6 filters incl. one that matches only vendored packages and one that matches nothing; default and explicit -package/-name): every entry equals the name parsed from that directory (GOROOT/src/vendor for vendored ones), matches the filter, is no main package; filtered tables are exactly the filter's selection of the unfiltered one; -novendor removes exactly the vendored entries. " +
		"distinct_nontrivial = distinct (path set, scenario) cases in which some package's declared name differs from its last path element or two packages compete for a name"
	r.Assume = []string{"package names are read from the package clauses in GOROOT/src (files tagged ignore and package main excluded; majority name per directory)",
		"thorough also covers the importable (non-internal) packages of /opt/veriftools/go1.26.8/src"}
	for _, goroot := range goroots {
		names := stdPackages(goroot)
		var paths []string
		for p := range names {
			// the second toolchain is newer than the tree's name table: only what a program can import
			// from it counts there (internal packages may have been renamed since, e.g. macOS -> macos)
			if goroot != runtime.GOROOT() && (strings.Contains("/"+p+"/", "/internal/")) {
				continue
			}
			paths = append(paths, p)
		}
		sort.Strings(paths)
		r.Count("packages:"+goroot, int64(len(paths)))
		if len(paths) < 150 {
			fmt.Fprintf(os.Stderr, "C18: only %d packages found below %s/src\n", len(paths), goroot)
			os.Exit(2)
		}
		one := func(ps []string, sc string) {
			w := c18World(names, ps, sc)
			r.Eval(1)
			desc := fmt.Sprintf("%v scenario %s", ps, sc)
			nontrivial := len(ps) > 1
			for _, p := range ps {
				if names[p] != lastElem(p) {
					nontrivial = true
				}
			}
			if nontrivial {
				r.Distinct(goroot + desc)
			}
			if probs := c18Judge(names, w); len(probs) > 0 {
				r.Violate(ev.Violation{Signature: "c18:" + sc + ":" + problemKind(probs[0]), What: desc + ": " + probs[0],
					Case: ev.JSON(c18Case{Goroot: goroot, Paths: ps, Scenario: sc, Desc: desc}), Detail: strings.Join(probs, "\n") + "\n" + w.Render().String()})
			}
		}
		// (a)
		explore.Range(int64(len(paths)*len(c18Scenarios)), 0, r.Expired, func(_ int, i int64) {
			one([]string{paths[int(i)/len(c18Scenarios)]}, c18Scenarios[int(i)%len(c18Scenarios)])
		})
		// (b)
		var pairs [][2]string
		for _, p := range paths {
			for _, q := range paths {
				if p == q {
					continue
				}
				pairs = append(pairs, [2]string{p, q})
			}
		}
		r.Count("pairs:"+goroot, int64(len(pairs)))
		explore.Range(int64(len(pairs)), 0, r.Expired, func(_ int, i int64) {
			ps := []string{pairs[i][0], pairs[i][1]}
			one(ps, "plain")
			one(ps, "prefix")
			one(ps, "second-aliased-to-name-of-first")
			one(ps, "non-ascii-prefix")
			if names[ps[0]] == names[ps[1]] || guessKey(ps[0]) == guessKey(ps[1]) {
				one(ps, "last-reference-shared-with-an-earlier-file")
				one(ps, "three-imports-then-a-dict-then-the-second")
				one(ps, "anon-then-fragment")
				// two stand-alone fragments one after the other: the second is qualified by its own name
				alone := jh.Catch(func() (string, error) { return jen.Qual(ps[1], "Y").GoString(), nil })
				jh.Catch(func() (string, error) { return jen.Qual(ps[0], "X").GoString(), nil })
				o := jh.Catch(func() (string, error) { return jen.Qual(ps[1], "Y").GoString(), nil })
				r.Eval(1)
				// (the name a fragment shows for a package the tree's table does not know is a guess: the
				// reference is the same fragment rendered before the other one)
				want := strings.TrimSpace(alone.Out)
				if goroot == runtime.GOROOT() {
					want = names[ps[1]] + ".Y"
				}
				if !o.OK() || strings.TrimSpace(o.Out) != want {
					desc := fmt.Sprintf("Qual(%q, X).GoString() and then Qual(%q, Y).GoString()", ps[0], ps[1])
					r.Violate(ev.Violation{Signature: "c18:fragment-after-fragment", What: fmt.Sprintf("%s: the second renders %q, want %q", desc, o, want), Case: ev.JSON(c18Case{Goroot: goroot, Paths: ps, Scenario: "gennames", Desc: desc})})
				}
			}
			if names[ps[0]] == names[ps[1]] {
				one(ps, "next-to-a-third-party-import")
				one(ps, "aliased-next-to-a-third-party-import")
			}
			if names[ps[0]] == names[ps[1]] || guessKey(ps[0]) == guessKey(ps[1]) || names[ps[0]] == guessKey(ps[1]) || names[ps[1]] == guessKey(ps[0]) || r.Tier == ev.Thorough {
				one(ps, "dict-value")
				one(ps, "alias=last-element")
				one(ps, "anon-then-ref")
			}
		})
		// every ordered triple of packages that share a declared name
		byName := map[string][]string{}
		for _, p := range paths {
			byName[names[p]] = append(byName[names[p]], p)
		}
		for _, grp := range byName {
			if len(grp) < 3 {
				continue
			}
			for _, a := range grp {
				for _, b := range grp {
					for _, c := range grp {
						if a != b && b != c && a != c {
							one([]string{a, b, c}, "plain")
							one([]string{a, b, c}, "next-to-a-third-party-import")
						}
					}
				}
			}
		}
		for _, p := range []string{"math/rand", "text/template", "math/rand/v2"} {
			if _, ok := names[p]; ok && r.WantSample() {
				w := c18World(names, []string{p, strings.Replace(strings.Replace(p, "math", "crypto", 1), "text", "html", 1)}, "plain")
				r.Sample(map[string]any{"operations": w.Log, "output": w.Render().Out})
			}
		}
	}
	// (c) gennames: the tool is run under a matrix of its flags; every table must be right entry by
	// entry, and the tables must be consistent with each other
	if gn := os.Getenv("VERIF_GENNAMES"); gn != "" {
		c18Gennames(r, gn)
	} else {
		r.Note("gennames", "skipped: run through run.sh")
	}
}

type c18Table struct {
	pkg, varName string
	entries      map[string]string
}

// parseGennames reads the file gennames wrote: package clause, variable name, entries.
func parseGennames(file string) (*c18Table, error) {
	fset := token.NewFileSet()
	f, err := parser.ParseFile(fset, file, nil, 0)
	if err != nil {
		return nil, err
	}
	t := &c18Table{pkg: f.Name.Name}
	for _, d := range f.Decls {
		if gd, ok := d.(*ast.GenDecl); ok && gd.Tok == token.VAR {
			for _, sp := range gd.Specs {
				if vs, ok := sp.(*ast.ValueSpec); ok && len(vs.Names) == 1 {
					t.varName = vs.Names[0].Name
				}
			}
		}
	}
	t.entries, err = parseNameTable(file)
	return t, err
}

func c18Gennames(r *ev.Recorder, gn string) {
	goroot := runtime.GOROOT()
	plain := stdPackages(goroot)
	vendored := vendoredStdPackages(goroot)
	filters := []string{"", "rand$", "^(crypto|go)/", "vendor", "^[^/]*$", "x{3}nothing"}
	type key struct {
		novendor bool
		filter   string
	}
	tables := map[key]*c18Table{}
	fail := func(sig, what, detail string) {
		r.Violate(ev.Violation{Signature: "c18:gennames-" + sig, What: what, Case: ev.JSON(c18Case{Scenario: "gennames", Desc: what}), Detail: detail})
	}
	run := 0
	for _, novendor := range []bool{true, false} {
		for _, filter := range filters {
			run++
			out := filepath.Join(os.Getenv("VERIF_SCRATCH"), fmt.Sprintf("gennames-out-%d.go", run))
			pkg, name := "x", "Names"
			args := []string{"-standard", "-output", out}
			if run%2 == 0 {
				pkg, name = "main", "PackageNames" // the defaults
			} else {
				args = append(args, "-package", pkg, "-name", name)
			}
			if novendor {
				args = append(args, "-novendor")
			}
			if filter != "" {
				args = append(args, "-filter", filter)
			}
			cmd := exec.Command(gn, args...)
			cmd.Env = append(os.Environ(), "GOROOT="+goroot)
			var b []byte
			var err error
			r.External(func() { b, err = cmd.CombinedOutput() })
			desc := fmt.Sprintf("gennames %s", strings.Join(args[:1], " ")+" "+strings.Join(args[3:], " "))
			r.Eval(1)
			if err != nil {
				fail("fails", desc+" fails: "+err.Error(), string(b))
				continue
			}
			t, err := parseGennames(out)
			if err != nil {
				fail("output", fmt.Sprintf("%s: output unusable: %v", desc, err), "")
				continue
			}
			tables[key{novendor, filter}] = t
			if t.pkg != pkg || t.varName != name {
				fail("header", fmt.Sprintf("%s: file declares package %s, var %s; want %s, %s", desc, t.pkg, t.varName, pkg, name), "")
			}
			re := regexp.MustCompile(filter)
			for p, n := range t.entries {
				r.Eval(1)
				real, isPlain := plain[p]
				vreal, isVendored := vendored[p]
				switch {
				case isPlain && real != n:
					fail("entry", fmt.Sprintf("%s maps %q to %q, the package declares %q", desc, p, n, real), "")
				case !isPlain && isVendored && vreal != n:
					fail("entry", fmt.Sprintf("%s maps vendored %q to %q, the package declares %q", desc, p, n, vreal), "")
				case !isPlain && isVendored && novendor:
					fail("novendor", fmt.Sprintf("%s lists %q, which exists only below vendor/", desc, p), "")
				case n == "main" || n == "":
					fail("entry", fmt.Sprintf("%s maps %q to the name %q", desc, p, n), "")
				}
				orig := p
				if !isPlain && isVendored {
					orig = "vendor/" + p
				}
				if !re.MatchString(orig) {
					fail("filter", fmt.Sprintf("%s lists %q, which the filter does not match", desc, p), "")
				}
				if isPlain && real != lastElem(p) || isVendored {
					r.Distinct("gennames:" + filter + p)
				}
			}
		}
	}
	// consistency between the tables: a filter only removes entries; -novendor removes exactly the
	// entries that exist only below vendor/
	for _, novendor := range []bool{true, false} {
		full := tables[key{novendor, ""}]
		if full == nil {
			continue
		}
		if len(full.entries) < 100 {
			fail("output", fmt.Sprintf("gennames -standard (novendor=%v) lists only %d packages", novendor, len(full.entries)), "")
		}
		for _, filter := range filters[1:] {
			t := tables[key{novendor, filter}]
			if t == nil {
				continue
			}
			re := regexp.MustCompile(filter)
			for p, n := range full.entries {
				orig := p
				if _, isPlain := plain[p]; !isPlain {
					if _, isVendored := vendored[p]; isVendored {
						orig = "vendor/" + p
					}
				}
				if _, have := t.entries[p]; re.MatchString(orig) && !have {
					fail("filter-drops", fmt.Sprintf("gennames -filter %q (novendor=%v) lacks %q (%s), which the filter matches and the unfiltered table has", filter, novendor, p, n), "")
				}
			}
			for p := range t.entries {
				if _, ok := full.entries[p]; !ok {
					fail("filter-adds", fmt.Sprintf("gennames -filter %q (novendor=%v) lists %q, which the unfiltered table lacks", filter, novendor, p), "")
				}
			}
		}
	}
	if nv, v := tables[key{true, ""}], tables[key{false, ""}]; nv != nil && v != nil {
		for p := range nv.entries {
			if _, ok := v.entries[p]; !ok {
				fail("novendor", fmt.Sprintf("%q is listed with -novendor but not without", p), "")
			}
		}
		nvend := 0
		for p := range v.entries {
			if _, ok := nv.entries[p]; !ok {
				nvend++
				if _, isVendored := vendored[p]; !isVendored {
					fail("novendor", fmt.Sprintf("-novendor drops %q, which is no vendored package", p), "")
				}
			}
		}
		r.Note("gennames", map[string]any{"runs": run, "entries": len(nv.entries), "entries_with_vendored": len(v.entries), "vendored_entries": nvend})
	}
}

func replayC18(raw json.RawMessage) (bool, string) {
	var c c18Case
	if err := json.Unmarshal(raw, &c); err != nil {
		return true, "bad case"
	}
	if c.Scenario == "gennames" {
		return true, "the gennames part is replayed by running the check"
	}
	names := stdPackages(c.Goroot)
	w := c18World(names, c.Paths, c.Scenario)
	probs := c18Judge(names, w)
	return len(probs) == 0, c.Desc + ":\n" + strings.Join(probs, "\n") + "\n" + w.Render().String()
}
