package checks

import (
	"encoding/json"
	"fmt"
	"os"
	"path/filepath"
	"strconv"
	"strings"
	"sync/atomic"

	"github.com/dave/jennifer/jen"

	"verif/internal/a2j"
	"verif/internal/ev"
	"verif/internal/explore"
	"verif/internal/jh"
)

// C15: comments are contained and preserved; file-level comments are placed right.

func init() {
	register(&Check{ID: "C15", Level: "exploration", Run: runC15, Replay: replayC15})
}

type c15Host struct {
	name  string
	items func() []*jen.Statement
	wrap  func(f *jen.File, items []jen.Code)
}

func inFunc(f *jen.File, body ...jen.Code) { f.Func().Id("fn").Params().Block(body...) }

var c15Hosts = []c15Host{
	{"File", func() []*jen.Statement {
		return []*jen.Statement{jen.Var().Id("x").Op("=").Lit(1), jen.Func().Id("f").Params().Block(), jen.Type().Id("T").Int()}
	}, func(f *jen.File, items []jen.Code) {
		for _, it := range items {
			f.Add(it)
		}
	}},
	{"Block", func() []*jen.Statement {
		return []*jen.Statement{jen.Id("x").Op(":=").Lit(1), jen.Id("y").Op(":=").Id("x"), jen.Id("_").Op("=").Id("y")}
	}, func(f *jen.File, items []jen.Code) { f.Func().Id("fn").Params().Block(items...) }},
	{"Defs", func() []*jen.Statement {
		return []*jen.Statement{jen.Id("A").Op("=").Lit(1), jen.Id("B").Op("=").Lit("s")}
	}, func(f *jen.File, items []jen.Code) { f.Const().Defs(items...) }},
	{"Struct", func() []*jen.Statement {
		return []*jen.Statement{jen.Id("A").Int(), jen.Id("B").String().Tag(map[string]string{"json": "b"}), jen.Id("C").Index().Byte()}
	}, func(f *jen.File, items []jen.Code) { f.Type().Id("T").Struct(items...) }},
	{"Interface", func() []*jen.Statement {
		return []*jen.Statement{jen.Id("M").Params(), jen.Id("N").Params(jen.Id("a").Int()).Error()}
	}, func(f *jen.File, items []jen.Code) { f.Type().Id("I").Interface(items...) }},
	{"Case-body", func() []*jen.Statement {
		return []*jen.Statement{jen.Id("x").Op("=").Lit(1), jen.Id("y").Call()}
	}, func(f *jen.File, items []jen.Code) {
		inFunc(f, jen.Switch(jen.Id("x")).Block(jen.Case(jen.Lit(1), jen.Lit(2)).Block(items...), jen.Default().Block(jen.Return())))
	}},
	{"Default-body", func() []*jen.Statement {
		return []*jen.Statement{jen.Id("x").Op("=").Lit(1), jen.Return()}
	}, func(f *jen.File, items []jen.Code) {
		inFunc(f, jen.Switch().Block(jen.Case(jen.Id("x")).Block(jen.Id("z").Op("++")), jen.Default().Block(items...)), jen.Id("after").Call())
	}},
	{"Select-case-body", func() []*jen.Statement {
		return []*jen.Statement{jen.Id("x").Op("=").Lit(1), jen.Id("y").Call()}
	}, func(f *jen.File, items []jen.Code) {
		inFunc(f, jen.Select().Block(jen.Case(jen.Op("<-").Id("ch")).Block(items...)))
	}},
}

// how the comment is made
var c15Forms = []struct {
	name string
	mk   func(s *jen.Statement, t string) *jen.Statement
}{
	{"Comment", func(s *jen.Statement, t string) *jen.Statement { return s.Comment(t) }},
	{"Commentf(%s)", func(s *jen.Statement, t string) *jen.Statement { return s.Commentf("%s", t) }},
	{"Commentf(escaped)", func(s *jen.Statement, t string) *jen.Statement { return s.Commentf(strings.ReplaceAll(t, "%", "%%")) }},
	// the arguments are a buffer, a Stringer and an argument slice the caller goes on using
	{"Commentf(%s%v, reused buffers)", func(s *jen.Statement, t string) *jen.Statement {
		buf := []byte(t[:len(t)/2])
		sb := &strings.Builder{}
		sb.WriteString(t[len(t)/2:])
		args := []interface{}{buf, sb}
		s.Commentf("%s%v", args...)
		for i := range buf {
			buf[i] = '#'
		}
		sb.WriteString(" */ late")
		args[0], args[1] = "reused", 7
		return s
	}},
}

type c15Case struct {
	Kind  string   `json:"kind"` // place | file | canonical
	Host  int      `json:"host"`
	Pos   int      `json:"pos"` // slot (own item) or item index (end of item)
	AtEnd bool     `json:"at_end_of_item"`
	Form  int      `json:"form"`
	Text  string   `json:"text_quoted"`
	Heads []string `json:"headers_quoted,omitempty"`
	Pkgs  []string `json:"package_comments_quoted,omitempty"`
	Desc  string   `json:"description"`
}

// c15Trail: null items appended after the host's real items (0 = none)
var c15Trail = 0

func c15Build(host, pos int, atEnd bool, form int, text string, noFormat, withComment bool) jh.Outcome {
	return c15BuildTrail(host, pos, atEnd, form, text, noFormat, withComment, 0)
}

func c15BuildTrail(host, pos int, atEnd bool, form int, text string, noFormat, withComment bool, trail int) jh.Outcome {
	h := c15Hosts[host]
	items := h.items()
	var codes []jen.Code
	for i, it := range items {
		if withComment && !atEnd && i == pos {
			codes = append(codes, c15Forms[form].mk(&jen.Statement{}, text))
		}
		if withComment && atEnd && i == pos {
			c15Forms[form].mk(it, text)
		}
		codes = append(codes, it)
	}
	if withComment && !atEnd && pos == len(items) {
		codes = append(codes, c15Forms[form].mk(&jen.Statement{}, text))
	}
	switch trail {
	case 1:
		codes = append(codes, jen.Null())
	case 2:
		codes = append(codes, nil, jen.Add())
	}
	f := jen.NewFile("p")
	f.NoFormat = noFormat
	h.wrap(f, codes)
	return jh.RenderFile(f)
}

var c15Base = map[string][]jh.Tok{}

func c15BaseTokens(host int, noFormat bool) []jh.Tok {
	o := c15Build(host, 0, false, 0, "", noFormat, false)
	if !o.OK() {
		panic("c15: host does not render: " + o.String())
	}
	toks, comments, nerr := jh.Scan(o.Out, true)
	if nerr != 0 || len(comments) != 0 {
		panic("c15: host has scanner errors or comments")
	}
	return toks
}

func c15ValidText(t string) bool {
	return !strings.HasPrefix(t, "//") && !strings.HasPrefix(t, "/*") && !strings.Contains(t, "*/")
}

// c15Place judges one placement; "" = holds.
func c15Place(host, pos int, atEnd bool, form int, text string, base [2][]jh.Tok) string {
	return c15PlaceTrail(host, pos, atEnd, form, text, base, 0)
}

func c15PlaceTrail(host, pos int, atEnd bool, form int, text string, base [2][]jh.Tok, trail int) string {
	for fi, noFormat := range []bool{true, false} {
		o := c15BuildTrail(host, pos, atEnd, form, text, noFormat, true, trail)
		mode := map[bool]string{true: "raw", false: "formatted"}[noFormat]
		if !o.OK() {
			return mode + " render failed: " + jh.Short(o.String(), 300)
		}
		toks, comments, nerr := jh.Scan(o.Out, true)
		if nerr != 0 {
			return fmt.Sprintf("%s output has %d scanner errors: %q", mode, nerr, jh.Short(o.Out, 300))
		}
		want := base[fi]
		if jh.TokString(toks) != jh.TokString(want) {
			return fmt.Sprintf("%s output: the comment changed the code's token sequence:\n got  %s\n want %s\n output %q", mode, jh.TokString(toks), jh.TokString(want), jh.Short(o.Out, 400))
		}
		if noFormat {
			// survival in what jennifer itself emits
			if len(comments) != 1 {
				return fmt.Sprintf("raw output has %d comment tokens %q, want exactly 1", len(comments), comments)
			}
			c := comments[0]
			multi := strings.Contains(text, "\n")
			switch {
			case !multi && !strings.HasPrefix(c, "//"):
				return fmt.Sprintf("one-line text rendered as %q, want a // comment", c)
			case multi && !(strings.HasPrefix(c, "/*") && strings.HasSuffix(c, "*/")):
				return fmt.Sprintf("multi-line text rendered as %q, want a /* */ comment", c)
			case !strings.Contains(c, text):
				return fmt.Sprintf("text %q does not survive in the comment %q", text, c)
			}
		} else if strings.TrimSpace(text) != "" {
			// after gofmt: every non-blank line survives (gofmt may re-indent and rewrites quote pairs in doc comments)
			all := strings.Join(comments, "\n")
			norm := func(s string) string {
				return strings.NewReplacer("``", "“", "''", "”").Replace(s)
			}
			for _, l := range strings.Split(text, "\n") {
				l = strings.TrimSpace(l)
				if l != "" && !strings.Contains(all, l) && !strings.Contains(all, norm(l)) {
					return fmt.Sprintf("line %q of the text is missing from the formatted output's comments %q", l, comments)
				}
			}
		}
	}
	return ""
}

// ---- file level

func c15FileLevel(heads, pkgs []string) string { return c15FileLevelOrder(heads, pkgs, 0) }

// order: 0 = header comments first, 1 = package comments first, 2 = alternating (header first),
// 3 = alternating (package comment first)
func c15FileLevelOrder(heads, pkgs []string, order int) string {
	f := jen.NewFile("p")
	switch order {
	case 0, 1:
		if order == 1 {
			for _, p := range pkgs {
				f.PackageComment(p)
			}
		}
		for _, h := range heads {
			f.HeaderComment(h)
		}
		if order == 0 {
			for _, p := range pkgs {
				f.PackageComment(p)
			}
		}
	default:
		for i := 0; i < len(heads) || i < len(pkgs); i++ {
			if order == 3 && i < len(pkgs) {
				f.PackageComment(pkgs[i])
			}
			if i < len(heads) {
				f.HeaderComment(heads[i])
			}
			if order == 2 && i < len(pkgs) {
				f.PackageComment(pkgs[i])
			}
		}
	}
	f.Var().Id("x").Op("=").Lit(1)
	o := jh.RenderFile(f)
	if !o.OK() {
		return "render failed: " + jh.Short(o.String(), 300)
	}
	af, _, err := jh.ParseFile(o.Out)
	if err != nil {
		return fmt.Sprintf("output does not parse: %v: %q", err, o.Out)
	}
	if af.Name.Name != "p" || len(af.Decls) != 1 {
		return fmt.Sprintf("package clause or declarations damaged: %q", o.Out)
	}
	doc := ""
	if af.Doc != nil {
		for _, c := range af.Doc.List {
			doc += c.Text + "\n"
		}
	}
	norm := func(s string) string { return strings.NewReplacer("``", "“", "''", "”").Replace(s) }
	for _, p := range pkgs {
		for _, l := range strings.Split(p, "\n") {
			l = strings.TrimSpace(l)
			if l != "" && !strings.Contains(doc, l) && !strings.Contains(doc, norm(l)) {
				return fmt.Sprintf("package comment line %q is not in the package doc %q", l, doc)
			}
		}
	}
	for _, h := range heads {
		for _, l := range strings.Split(h, "\n") {
			l = strings.TrimSpace(l)
			if l != "" && strings.Contains(doc, l) {
				return fmt.Sprintf("header comment line %q is part of the package doc %q", l, doc)
			}
		}
	}
	// all header text must still be somewhere, before the package clause
	before := o.Out[:strings.Index(o.Out, "package p")]
	for _, h := range heads {
		for _, l := range strings.Split(h, "\n") {
			l = strings.TrimSpace(l)
			if l != "" && !strings.Contains(before, l) && !strings.Contains(before, norm(l)) {
				return fmt.Sprintf("header comment line %q is missing above the package clause: %q", l, before)
			}
		}
	}
	return ""
}

func c15Canonical(path string) string {
	f := jen.NewFile("p")
	f.CanonicalPath = path
	f.Var().Id("x").Op("=").Lit(1)
	o := jh.RenderFile(f)
	if !o.OK() {
		return "render failed: " + jh.Short(o.String(), 300)
	}
	af, fset, err := jh.ParseFile(o.Out)
	if err != nil || af.Name.Name != "p" || len(af.Decls) != 1 {
		return fmt.Sprintf("output damaged (%v): %q", err, o.Out)
	}
	line := fset.Position(af.Package).Line
	found := ""
	for _, cg := range af.Comments {
		for _, c := range cg.List {
			if fset.Position(c.Pos()).Line == line {
				found = c.Text
			}
		}
	}
	if path == "" {
		if found != "" {
			return fmt.Sprintf("empty canonical path rendered %q", found)
		}
		return ""
	}
	const pre = "// import "
	if !strings.HasPrefix(found, pre) {
		return fmt.Sprintf("package clause carries %q, want an import-path annotation", found)
	}
	got, err := strconv.Unquote(strings.TrimSpace(found[len(pre):]))
	if err != nil || got != path {
		return fmt.Sprintf("annotation %q reads as %q (%v), want %q", found, got, err, path)
	}
	return ""
}

var c15Alphabet = []string{"a", " ", "{", "}", `"`, "`", "\n", "/", "*", `\`, ";", "é", "%", "\u00a0", "\u200d"}

func c15Texts(maxLen int) []string {
	out := []string{""}
	prev := []string{""}
	for l := 1; l <= maxLen; l++ {
		var next []string
		for _, p := range prev {
			for _, u := range c15Alphabet {
				next = append(next, p+u)
			}
		}
		prev = next
		for _, t := range next {
			if c15ValidText(t) {
				out = append(out, t)
			}
		}
	}
	return out
}

func runC15(r *ev.Recorder) {
	maxLen := 4
	if r.Tier == ev.Thorough {
		maxLen = 5
		r.SetDeadline(50 * 60 * 1e9)
	} else {
		r.SetDeadline(6 * 60 * 1e9)
	}
	texts := c15Texts(maxLen)
	long := []string{"x := map[string]int{\"a\": 1}", "line one\nline two\n", "\nleading newline", "a // b", "ends with backslash \\", "} else {", "/ * not a marker", "tab\there", "func f() {\n\treturn\n}", "\n", "\n\n", " \n "}
	texts = append(texts, long...)
	var hn, fn []string
	for _, h := range c15Hosts {
		hn = append(hn, h.name)
	}
	for _, f := range c15Forms {
		fn = append(fn, f.name)
	}
	r.Rule = fmt.Sprintf("comment texts: every string of length <= %d over %q that does not start with a comment marker nor contain */ (%d texts) plus %d longer code-like texts; "+
		"placed (a) as an item of its own at every slot and (b) with .Comment at the end of every item of the hosts %v, through the forms %v; rendered raw (NoFormat) and formatted; for the last position of each host also with null items (Null(); nil, Add()) appended to the host list. "+
		"Oracle: go/scanner reports no error and the code-token sequence (semicolons ignored) equals that of the host without comment; in the raw output exactly one comment token holds the text verbatim, // style for one-line text and /* */ when it contains a newline; "+
		"after gofmt every non-blank line of the text is still inside a comment. File level: every pair of 0..2 header comments and 0..2 package comments from 12 marked texts: ast.File.Doc holds every package-comment line and no header line, header text stays above the package clause; "+
		"CanonicalPath: every string of length <= 2 over the 26 C12 units: the package clause line carries `// import <lit>` with strconv.Unquote(lit) == path. distinct_nontrivial = distinct (text, host, position, form) cases whose text is not plain letters", maxLen, c15Alphabet, len(texts)-len(long), len(long), hn, fn)
	r.Assume = []string{"CR is outside the text domain (go/scanner strips it from comments)", "gofmt legitimately rewrites comment text (quote pairs in doc comments, indentation); survival after gofmt is therefore required line-wise, verbatim survival on the raw output"}

	type place struct {
		host, pos int
		atEnd     bool
	}
	var places []place
	bases := make([][2][]jh.Tok, len(c15Hosts))
	for hi, h := range c15Hosts {
		bases[hi] = [2][]jh.Tok{c15BaseTokens(hi, true), c15BaseTokens(hi, false)}
		n := len(h.items())
		for p := 0; p <= n; p++ {
			places = append(places, place{hi, p, false})
		}
		for p := 0; p < n; p++ {
			places = append(places, place{hi, p, true})
		}
	}
	total := int64(len(texts)) * int64(len(places)) * int64(len(c15Forms))
	done := explore.Range(total, 0, r.Expired, func(_ int, i int64) {
		fi := int(i % int64(len(c15Forms)))
		pi := int(i / int64(len(c15Forms)) % int64(len(places)))
		t := texts[i/int64(len(c15Forms))/int64(len(places))]
		pl := places[pi]
		if fi > 0 && !(strings.ContainsAny(t, "\n%") || pi%5 == 0) {
			return // the Commentf forms differ from Comment only in how the text is computed
		}
		r.Eval(2)
		desc := fmt.Sprintf("%s %q in %s at %d (end of item: %v)", c15Forms[fi].name, t, c15Hosts[pl.host].name, pl.pos, pl.atEnd)
		if strings.Trim(t, "a") != "" {
			r.Distinct(desc)
		}
		if msg := c15Place(pl.host, pl.pos, pl.atEnd, fi, t, bases[pl.host]); msg != "" {
			r.Violate(ev.Violation{Signature: "c15:place:" + c15Hosts[pl.host].name + ":" + problemKind(msg), What: desc + ": " + jh.Short(msg, 300),
				Case: ev.JSON(c15Case{Kind: "place", Host: pl.host, Pos: pl.pos, AtEnd: pl.atEnd, Form: fi, Text: strconv.Quote(t), Desc: desc}), Detail: msg})
		}
		// the same placement when the host list ends in null items (they must not change anything)
		if fi == 0 && len(t) <= 2 {
			n := len(c15Hosts[pl.host].items())
			if (pl.atEnd && pl.pos == n-1) || (!pl.atEnd && pl.pos == n) {
				for trail := 1; trail <= 2; trail++ {
					r.Eval(2)
					if msg := c15PlaceTrail(pl.host, pl.pos, pl.atEnd, fi, t, bases[pl.host], trail); msg != "" {
						d := desc + fmt.Sprintf(" with trailing null items (variant %d) in the host", trail)
						r.Violate(ev.Violation{Signature: "c15:place-trailing-null:" + c15Hosts[pl.host].name + ":" + problemKind(msg), What: d + ": " + jh.Short(msg, 300),
							Case: ev.JSON(c15Case{Kind: "place", Host: pl.host, Pos: pl.pos, AtEnd: pl.atEnd, Form: fi, Text: strconv.Quote(t), Heads: []string{fmt.Sprint(trail)}, Desc: d}), Detail: msg})
					}
				}
			}
		}
		if i%200003 == 0 && r.WantSample() {
			r.Sample(map[string]any{"case": desc, "raw_output": c15Build(pl.host, pl.pos, pl.atEnd, fi, t, true, true).Out})
		}
	})
	if !done {
		r.NotExhaustive("deadline inside the placement enumeration")
	}
	// program level: comments at the end of every item, and between all items, of every Block /
	// Defs / Struct / Interface (case bodies included) of real programs; the syntax tree must
	// stay the same
	hostNames := map[string]bool{"Block": true, "Defs": true, "Struct": true, "Interface": true}
	policies := []struct {
		name string
		fn   func(site int, name string, items []jen.Code) []jen.Code
	}{
		{"a line comment `c { \\` at the end of every item", func(site int, name string, items []jen.Code) []jen.Code {
			if !hostNames[name] {
				return items
			}
			for _, it := range items {
				if st, ok := it.(*jen.Statement); ok && st != nil {
					st.Comment("c { \\")
				}
			}
			return items
		}},
		{"a two-line comment between all items", func(site int, name string, items []jen.Code) []jen.Code {
			if !hostNames[name] {
				return items
			}
			out := []jen.Code{jen.Comment("first } line\nsecond \" line")}
			for _, it := range items {
				out = append(out, it, jen.Commentf("%s", "between\n/ items"))
			}
			return out
		}},
		{"an empty comment and a code-like comment around every item", func(site int, name string, items []jen.Code) []jen.Code {
			if !hostNames[name] {
				return items
			}
			out := []jen.Code{}
			for _, it := range items {
				out = append(out, jen.Comment(""), it, jen.Comment("x := f(`raw`) // nested"))
			}
			return out
		}},
	}
	stride := int64(12)
	if r.Tier == ev.Thorough {
		stride = 1
	}
	croot := filepath.Join(defaultGoroot, "src")
	cfiles := goFilesBelow(croot)
	cres := newResolver(defaultGoroot)
	var cprogs atomic.Int64
	explore.Range(int64(len(cfiles)), 0, r.Expired, func(_ int, i int64) {
		if i%stride != 3%stride {
			return
		}
		src, err := os.ReadFile(cfiles[i])
		if err != nil || roundTrip(cfiles[i], src, cres.name, a2j.Hooks{}).Kind != "ok" {
			return
		}
		for pi, pol := range policies {
			b := roundTrip(cfiles[i], src, cres.name, a2j.Hooks{Items: pol.fn})
			r.Eval(1)
			cprogs.Add(1)
			d := fmt.Sprintf("%s with %s", strings.TrimPrefix(cfiles[i], croot+"/"), pol.name)
			r.Distinct(d)
			if b.Kind != "ok" {
				r.Violate(ev.Violation{Signature: "c15:program:" + b.Kind, What: d + ": " + b.Kind + " " + jh.Short(b.Detail, 300), Case: ev.JSON(c15Case{Kind: "program", Pos: pi, Desc: cfiles[i]}), Detail: b.Detail})
			}
		}
	})
	r.Note("program_level", map[string]any{"programs_with_comments": cprogs.Load(), "corpus_stride": stride})

	// file level
	ht := []string{"h1", "h two words", "h\nhmulti", "h {", "// h raw", "/* h block */", "h quoting\n//go:generate hgen", "h box\n/**** hbox"}
	pt := []string{"p1", "Package p does", "p\npmulti", "p }", "// p raw", "/* p block */", "p quoting\n//go:generate pgen", "p box\n/**** pbox", "p nbsp\u00a0joined\u200dtext"}
	lists := func(ts []string) [][]string {
		out := [][]string{nil}
		for _, a := range ts {
			out = append(out, []string{a})
			for _, b := range ts {
				out = append(out, []string{a, b})
			}
		}
		return out
	}
	hl, pl := lists(ht), lists(pt)
	explore.Range(int64(len(hl)*len(pl)), 0, r.Expired, func(_ int, i int64) {
		h, p := hl[int(i)/len(pl)], pl[int(i)%len(pl)]
		r.Eval(1)
		desc := fmt.Sprintf("HeaderComment%q PackageComment%q", h, p)
		if len(h)+len(p) > 0 {
			r.Distinct(desc)
		}
		for order := 0; order < 4; order++ {
			if order > 0 && (len(h) == 0 || len(p) == 0) {
				break
			}
			if msg := c15FileLevelOrder(h, p, order); msg != "" {
				d := desc + []string{"", " (package comments added first)", " (added alternately, header first)", " (added alternately, package comment first)"}[order]
				r.Violate(ev.Violation{Signature: "c15:file:" + problemKind(msg), What: d + ": " + jh.Short(msg, 300), Case: ev.JSON(c15Case{Kind: "file", Heads: h, Pkgs: p, Pos: order, Desc: d}), Detail: msg})
			}
		}
	})
	// comments at the end of items that are clones of one base statement (1..9 tokens, so with and
	// without spare capacity), and comments appended to an item after it was added to its Block
	for n := 1; n <= 9; n++ {
		base := jen.Id("b0")
		for i := 1; i < n; i++ {
			base.Dot(fmt.Sprintf("b%d", i))
		}
		a, b := base.Clone().Call().Comment("first clone"), base.Clone().Call().Comment("second clone")
		f := jen.NewFile("p")
		f.Func().Id("fn").Params().Block(a, b)
		o := jh.RenderFile(f)
		r.Eval(1)
		r.Distinct(fmt.Sprintf("comments-on-clones-%d", n))
		if !o.OK() || strings.Count(o.Out, "// first clone") != 1 || strings.Count(o.Out, "// second clone") != 1 {
			r.Violate(ev.Violation{Signature: "c15:comments-on-clones", What: fmt.Sprintf("two clones of a %d-token statement, each with its own trailing comment, render %q", 2*n-1, jh.Short(o.String(), 300)), Case: ev.JSON(c15Case{Kind: "program", Desc: "comments on clones"})})
		}
	}
	{
		var sts []*jen.Statement
		f := jen.NewFile("p")
		f.Func().Id("fn").Params().BlockFunc(func(g *jen.Group) {
			for i := 0; i < 3; i++ {
				st := jen.Id(fmt.Sprintf("call%d", i)).Call()
				g.Add(st)
				sts = append(sts, st)
			}
		})
		top := jen.Var().Id("x").Op("=").Lit(1)
		f.Add(top)
		for i, st := range sts {
			st.Comment(fmt.Sprintf("annotated later %d", i))
		}
		top.Comment("annotated later top")
		o := jh.RenderFile(f)
		r.Eval(1)
		r.Distinct("comments-after-add")
		ok := o.OK() && strings.Contains(o.Out, "// annotated later top")
		for i := range sts {
			ok = ok && strings.Contains(o.Out, fmt.Sprintf("call%d() // annotated later %d", i, i))
		}
		if !ok {
			r.Violate(ev.Violation{Signature: "c15:comments-appended-after-add", What: fmt.Sprintf("items added to a Block / the File first and commented afterwards render %q", jh.Short(o.String(), 400)), Case: ev.JSON(c15Case{Kind: "program", Desc: "comments after add"})})
		}
	}
	// long lines and foreign line endings in file-level comments: three lines, the middle one of
	// length 10, 2^16-1, 2^16, 70000 (sizes at which line-oriented readers give up), ending in \n or \r\n
	for _, n := range []int{10, 4095, 4096, 65535, 65536, 70000, 1 << 20} {
		for _, nl := range []string{"\n", "\r\n"} {
			for which := 0; which < 2; which++ {
				text := "first line" + nl + strings.Repeat("x", n-6) + " tail" + fmt.Sprint(n%10) + nl + "last line"
				h, p := []string{"a header"}, []string{"Package p."}
				if which == 0 {
					h = []string{text}
				} else {
					p = []string{text}
				}
				r.Eval(1)
				desc := fmt.Sprintf("%s with three lines, the second %d bytes long, line ending %q", []string{"HeaderComment", "PackageComment"}[which], n, nl)
				r.Distinct(desc)
				if msg := c15FileLevel(h, p); msg != "" {
					r.Violate(ev.Violation{Signature: "c15:file-long-lines:" + problemKind(jh.Short(msg, 40)), What: desc + ": " + jh.Short(msg, 300), Case: ev.JSON(c15Case{Kind: "program", Desc: desc}), Detail: jh.Short(msg, 2000)})
				}
			}
		}
	}
	// the same File rendered, its settings changed, rendered again: every render must show the
	// CURRENT canonical path and comments
	{
		f := jen.NewFile("p")
		f.Var().Id("x").Op("=").Lit(1)
		seq := []string{"", "example.com/a", "example.com/b", "", "q\"uote"}
		for i, cp := range seq {
			f.CanonicalPath = cp
			if i == 2 {
				f.PackageComment("Package p, documented late.")
			}
			if i == 3 {
				f.HeaderComment("header added late")
			}
			got := jh.RenderFile(f)
			fresh := jen.NewFile("p")
			fresh.CanonicalPath = cp
			if i >= 2 {
				fresh.PackageComment("Package p, documented late.")
			}
			if i >= 3 {
				fresh.HeaderComment("header added late")
			}
			fresh.Var().Id("x").Op("=").Lit(1)
			want := jh.RenderFile(fresh)
			r.Eval(1)
			desc := fmt.Sprintf("render #%d of one File after CanonicalPath was set to %q", i+1, cp)
			r.Distinct(desc)
			if got.Key() != want.Key() {
				r.Violate(ev.Violation{Signature: "c15:settings-changed-between-renders", What: fmt.Sprintf("%s: renders\n%s\na fresh File with the same settings renders\n%s", desc, got, want),
					Case: ev.JSON(c15Case{Kind: "program", Desc: desc}), Detail: desc})
			}
		}
	}
	// canonical path
	paths := []string{"", "a/b", "example.com/x y", "q\"uote", "new\nline"}
	for _, a := range c12Units {
		paths = append(paths, a)
		for _, b := range c12Units {
			paths = append(paths, a+b)
		}
	}
	for _, p := range paths {
		if strings.ContainsAny(p, "\r") {
			continue
		}
		r.Eval(1)
		desc := fmt.Sprintf("CanonicalPath=%q", p)
		r.Distinct(desc)
		if msg := c15Canonical(p); msg != "" {
			r.Violate(ev.Violation{Signature: "c15:canonical:" + problemKind(msg), What: desc + ": " + msg, Case: ev.JSON(c15Case{Kind: "canonical", Text: strconv.Quote(p), Desc: desc}), Detail: msg})
		}
	}
}

func replayC15(raw json.RawMessage) (bool, string) {
	var c c15Case
	if err := json.Unmarshal(raw, &c); err != nil {
		return true, "bad case"
	}
	var msg string
	switch c.Kind {
	case "program":
		return true, "program-level comment cases are replayed by running the check"
	case "place":
		t, _ := strconv.Unquote(c.Text)
		trail := 0
		if len(c.Heads) == 1 {
			trail, _ = strconv.Atoi(c.Heads[0])
		}
		msg = c15PlaceTrail(c.Host, c.Pos, c.AtEnd, c.Form, t, [2][]jh.Tok{c15BaseTokens(c.Host, true), c15BaseTokens(c.Host, false)}, trail)
	case "file":
		msg = c15FileLevelOrder(c.Heads, c.Pkgs, c.Pos)
	case "canonical":
		t, _ := strconv.Unquote(c.Text)
		msg = c15Canonical(t)
	}
	return msg == "", c.Desc + ": " + msg
}
