package checks

import (
	"encoding/json"
	"fmt"
	"strings"
	"sync"

	"verif/internal/ev"
	"verif/internal/explore"
	"verif/internal/imp"
	"verif/internal/statespace"
)

// C03: every qualified identifier resolves to the package it was built with.

func init() {
	register(&Check{ID: "C03", Level: "model_checking", Run: runC03, Replay: replayC03})
}

var renderedWrappers = func() []int {
	var out []int
	for i, w := range imp.Wrappers {
		if w.Rendered {
			out = append(out, i)
		}
	}
	return out
}()

var c03Families = []*family{
	{name: "f", ctors: []string{"NewFile"}, paths: []string{"a/f", "b/f", "c/F", "x/f1", "y/pkg_f"},
		names:   map[string]string{"a/f": "f", "b/f": "f", "c/F": "f", "x/f1": "f1", "y/pkg_f": "pkg_f"},
		aliases: []string{"f", "f1", "pkg_f", "_"}, prefixes: []string{"pkg", "pkg_"}, maxRefs: 4, freeRefs: 3, wrappers: []int{0, imp.WrapperIndex("dictkey"), imp.WrapperIndex("caseblock")}, anon: true, oneDict: true, lateNames: true},
	{name: "rand", ctors: []string{"NewFile"}, paths: []string{"math/rand", "crypto/rand", "x/rand", "y/rand1", "text/template", "html/template"},
		names:   map[string]string{"x/rand": "rand", "y/rand1": "rand1"},
		aliases: []string{"rand", "rand1", "template"}, prefixes: []string{"p"}, maxRefs: 4, freeRefs: 3, wrappers: []int{0}, anon: true, lateNames: true},
	{name: "reserved", ctors: []string{"NewFile"}, paths: []string{"x/go", "y/go", "x/int", "x/any", "x/1f", "x/9", "x/é-b", "z/pkg", "x/err", "x/api/2.0", "x/-7zip", "x/3-2-1go", "x/fallthrough", "x/x²", "x/interface"},
		names:   map[string]string{"x/int": "int", "x/any": "any", "z/pkg": "pkg", "x/err": "err", "x/1f": "f"},
		aliases: []string{"go", "pkg", "int", "pkg1"}, prefixes: []string{"pkg"}, maxRefs: 3, freeRefs: 2, wrappers: []int{0}, anon: false, doubles: true},
	// aliases that merely repeat the last path element of a package that is called something else
	{name: "last-element", ctors: []string{"NewFile"}, paths: []string{"math/rand/v2", "x/gofoo", "y/v2", "x/yaml.v3", "fmt"},
		names:   map[string]string{"x/gofoo": "foo", "y/v2": "lib", "x/yaml.v3": "yaml"},
		aliases: []string{"v2", "gofoo", "rand", "yaml"}, prefixes: []string{"pkg"}, maxRefs: 3, freeRefs: 3, wrappers: []int{0}, anon: true, doubles: true},
	{name: "local", ctors: []string{"NewFilePath", "NewFilePathName"}, local: "a.b/c", paths: []string{"a.b/c", "a.b/c/", "x/a.b/c", "a.b/C", "d/c", "fmt"},
		names:   map[string]string{"a.b/c/": "c", "d/c": "c", "x/a.b/c": "c", "a.b/C": "c"},
		aliases: []string{"c", "."}, prefixes: []string{"pkg"}, maxRefs: 3, freeRefs: 2, wrappers: []int{0, imp.WrapperIndex("dictkey")}, anon: false, last: true},
	{name: "cgo", ctors: []string{"NewFile"}, paths: []string{"C", "b/C", "a/c", "fmt", "9fans.net/go"},
		names:   map[string]string{"b/C": "C", "a/c": "c"},
		aliases: []string{"C", "c"}, prefixes: []string{"pkg"}, maxRefs: 3, freeRefs: 3, wrappers: []int{0}, anon: true, extra: true,
		preambleOpts: [][]string{nil, {"#include <a.h>"}}},
	{name: "mixed", ctors: []string{"NewFile"}, paths: []string{"a/f", "b/f", "math/rand", "crypto/rand", "x/go", "C", "fmt", "x/fmt"},
		names:   map[string]string{"a/f": "f", "b/f": "f", "x/fmt": "fmt"},
		aliases: []string{"f", "fmt", "rand", "_"}, prefixes: []string{"pkg"}, maxRefs: 4, freeRefs: 2, wrappers: []int{0}, anon: true},
}

func familyByName(fams []*family, n string) *family {
	for _, f := range fams {
		if f.name == n {
			return f
		}
	}
	return nil
}

type impCase struct {
	Family string   `json:"family,omitempty"`
	Vector []int    `json:"vector,omitempty"`
	BFS    []int    `json:"bfs_history,omitempty"`
	Ops    []string `json:"operations"`
}

// c03Judge is the oracle of C03 on one world.
func c03Judge(w *imp.World) []string {
	a, msg := renderAnalyze(w)
	if a == nil {
		return []string{msg}
	}
	return imp.CheckResolve(a, w)
}

// ---- raw-operation BFS

func c03RawSystem() *rawSystem {
	return newRawSystem("NewFile", "", []string{"a/f", "b/f", "x/f1", "fmt", "math/rand", "crypto/rand", "x/go"},
		map[string]string{"a/f": "f", "b/f": "f", "x/f1": "f1"}, []string{"f", "f1"}, []int{0}, true, "pkg",
		rawOp{"ImportNames(all)", func(w *imp.World) { w.Names("a/f", "b/f", "x/f1") }})
}

func runC03(r *ev.Recorder) {
	depth, dev := 4, 3
	if r.Tier == ev.Thorough {
		depth, dev = 5, 5
		r.SetDeadline(45 * 60 * 1e9)
	} else {
		r.SetDeadline(6 * 60 * 1e9)
	}
	r.Rule = fmt.Sprintf("(1) explicit-state BFS over one real File: 34 raw operations (ImportName / ImportAlias x2 / Anon / reference for 7 colliding paths, ImportNames, PackagePrefix) in every order up to depth %d, "+
		"de-duplicated on a reflection dump of all File fields; in every distinct state the File is rendered and the output type-checked by go/types with a fabricated importer that declares each package under its true name "+
		"(unguessable unless std or stated through ImportName) exporting exactly the symbols referenced through that path - zero type errors, one qualifier per path. "+
		"(2) canonical pre-render histories (final hint per path, anonymous set, prefix, ordered reference sequence; see checks/impcommon.go) enumerated by the choice-point explorer for %d path families: "+
		"every reference sequence up to the family's length, with every combination of <= %d non-default settings (hint kinds incl. double hints, Anon, prefix, wrapper position, hints after references, an unused hinted path). "+
		"(3) a package named v<N> (N = 1..13) before or after 1..N+2 packages competing for the base name v, prefix on/off. distinct_nontrivial = distinct rendered outputs with at least two import specs", depth, len(c03Families), dev)
	r.Assume = []string{"ImportName is only ever given the package's true name (its documented contract)",
		"go/types with a fabricated importer decides resolution; symbols are upper-case R<n>, outside the reach of any import name",
		"histories longer than the bounds, and more than the stated number of non-default settings per scenario, are outside the bound"}

	// (1) BFS
	sys := c03RawSystem()
	var canonMu sync.Mutex
	res := statespace.Search(statespace.System{
		Tick:   r.Tick,
		NumOps: len(sys.ops), MaxDepth: depth, Stop: r.Expired,
		Step: func(hist []int) (string, bool) {
			w := sys.build(hist)
			return imp.Key(w.F), true
		},
		Invariant: func(hist []int) {
			w := sys.build(hist)
			r.Eval(1)
			a, msg := renderAnalyze(w)
			var probs []string
			if a == nil {
				probs = []string{msg}
			} else {
				probs = imp.CheckResolve(a, w)
				if len(a.Specs) >= 2 {
					r.Distinct(a.Src)
				}
			}
			if len(hist) == 4 && r.WantSample() && a != nil && len(a.Specs) >= 2 {
				canonMu.Lock()
				r.Sample(map[string]any{"bfs_history": w.Log[1:], "output": a.Src})
				canonMu.Unlock()
			}
			if len(probs) > 0 {
				r.Violate(ev.Violation{Signature: "c03:bfs:" + problemKind(probs[0]), What: fmt.Sprintf("after %v: %s", w.Log[1:], probs[0]),
					Case: ev.JSON(impCase{BFS: hist, Ops: w.Log}), Detail: strings.Join(probs, "\n")})
			}
		},
	})
	r.Note("states", res.States)
	r.Note("transitions", res.Transitions)
	r.Note("traces_validated_against_impl", res.Transitions)
	r.Note("bfs_depth_completed", res.Depth)
	r.Note("bfs_states_per_depth", res.PerDepth)
	if !res.Complete {
		r.NotExhaustive("BFS stopped before its depth bound")
	}

	// (2) canonical scenarios per family
	perFam := map[string]any{}
	for _, fam := range c03Families {
		fam := fam
		st := explore.Explore(explore.Options{MaxDev: dev, Stop: r.Expired}, func(c *explore.Ctx) {
			w := fam.scenario(c)
			r.Eval(1)
			a, msg := renderAnalyze(w)
			var probs []string
			if a == nil {
				probs = []string{msg}
			} else {
				probs = imp.CheckResolve(a, w)
				if len(a.Specs) >= 2 {
					r.Distinct(a.Src)
				}
			}
			if len(probs) > 0 {
				r.Violate(ev.Violation{Signature: "c03:" + fam.name + ":" + problemKind(probs[0]), What: fmt.Sprintf("%v: %s", w.Log, probs[0]),
					Case: ev.JSON(impCase{Family: fam.name, Vector: c.Vector(), Ops: w.Log}), Detail: strings.Join(probs, "\n")})
			}
		})
		perFam[fam.name] = map[string]any{"executions": st.Executions, "per_deviation_level": st.PerLevel, "complete": st.Complete}
		if !st.Complete {
			r.NotExhaustive("family " + fam.name + " stopped at the deadline")
		}
	}
	r.Note("families", perFam)

	// (3) a package whose own name is base+N, referenced first (or last), and k further packages
	// competing for the base name: the numbering must step over the taken name
	for n := 1; n <= 13; n++ {
		for k := 1; k <= n+2 && k <= 14; k++ {
			for variant := 0; variant < 4; variant++ {
				names := map[string]string{}
				own := fmt.Sprintf("legacy/v%d", n)
				w := imp.New("NewFile", "", imp.DefaultTrueName(names))
				if variant&2 != 0 {
					w.Prefix("pkg")
				}
				if variant&1 == 0 {
					w.Ref(own, 0)
				}
				for i := 0; i < k; i++ {
					w.Ref(fmt.Sprintf("g%d/v", i), 0)
				}
				if variant&1 != 0 {
					w.Ref(own, 0)
				}
				r.Eval(1)
				a, msg := renderAnalyze(w)
				var probs []string
				if a == nil {
					probs = []string{msg}
				} else {
					probs = imp.CheckResolve(a, w)
					r.Distinct(a.Src)
				}
				if len(probs) > 0 {
					r.Violate(ev.Violation{Signature: "c03:numbered:" + problemKind(probs[0]), What: fmt.Sprintf("%v: %s", w.Log, probs[0]), Case: ev.JSON(impCase{Ops: w.Log}), Detail: strings.Join(probs, "\n")})
				}
			}
		}
	}
}

func replayImp(fams []*family, sys *rawSystem, judge func(w *imp.World) []string, raw json.RawMessage) (bool, string) {
	var c impCase
	if err := json.Unmarshal(raw, &c); err != nil {
		return true, "bad case"
	}
	if c.Family == "" && len(c.BFS) == 0 {
		return true, "this case is replayed by running the check (operations: " + strings.Join(c.Ops, " ") + ")"
	}
	var w *imp.World
	if c.Family != "" {
		fam := familyByName(fams, c.Family)
		if fam == nil {
			return true, "unknown family"
		}
		w = fam.scenario(explore.NewReplay(c.Vector))
	} else {
		w = sys.build(c.BFS)
	}
	log := append([]string(nil), w.Log...)
	probs := judge(w)
	return len(probs) == 0, fmt.Sprintf("operations %v:\n%s\noutput:\n%s", log, strings.Join(probs, "\n"), w.Render().String())
}

func replayC03(raw json.RawMessage) (bool, string) {
	return replayImp(c03Families, c03RawSystem(), c03Judge, raw)
}
