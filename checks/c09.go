package checks

import (
	"bytes"
	"encoding/json"
	"fmt"
	"math"
	"os"
	"os/exec"
	"path/filepath"
	"reflect"
	"runtime"
	"sort"
	"strings"
	"sync"
	"time"

	"github.com/dave/jennifer/jen"

	"verif/internal/env"
	"verif/internal/ev"
	"verif/internal/explore"
	"verif/internal/jh"
	"verif/internal/sched"
)

// C09: Files do not interfere - no hidden global state, safe to build concurrently.
// Three explorations over the same job bodies: (1) every interleaving of concurrent jobs at
// accesses to package-level state up to a preemption bound (E3), (2) every order of rendering
// the Files sequentially and every sharing of sub-statements between two Files (E1), (3) a
// free-running pass of the same bodies under the race detector.

func init() {
	register(&Check{ID: "C09", Level: "model_checking", Variant: "instr", Run: runC09, Replay: replayC09})
}

type c09Job struct {
	name string
	body func(k func(jen.Code) jen.Code) string
}

func c09Out(f *jen.File) string {
	o := jh.RenderFile(f)
	if o.Panic != nil {
		return fmt.Sprintf("PANIC: %v", o.Panic)
	}
	if o.Err != nil {
		return "ERROR: " + jh.Short(o.Err.Error(), 200)
	}
	return o.Out
}

var c09Jobs = []c09Job{
	{"colliding-dict-case", func(k func(jen.Code) jen.Code) string {
		f := jen.NewFile("p")
		f.Var().Id("x").Op("=").Map(jen.Int()).Int().Values(jen.Dict{k(jen.Qual("a/f", "X")): jen.Qual("b/f", "Y"), k(jen.Qual("c/f", "X")): jen.Qual("fmt", "Z")})
		f.Func().Id("g").Params().Block(jen.Switch(jen.Id("x")).Block(jen.Case(jen.Nil()).Block(jen.Qual("x/yaml.v2", "Marshal").Call()), jen.Default().Block()))
		return c09Out(f)
	}},
	{"hinted", func(k func(jen.Code) jen.Code) string {
		f := jen.NewFile("q")
		f.PackagePrefix = "pkg"
		f.ImportAlias("x/yaml.v2", "yaml")
		f.ImportName("b/f", "bee")
		f.ImportAlias("a/f", "zed")
		f.Func().Id("h").Params().Block(jen.Qual("x/yaml.v2", "Marshal").Call(jen.Qual("b/f", "Y")), jen.Qual("a/f", "X").Call(), jen.Qual("math/rand", "Int").Call(), jen.Qual("crypto/rand", "Read").Call())
		return c09Out(f)
	}},
	{"unhinted-noformat", func(k func(jen.Code) jen.Code) string {
		f := jen.NewFilePathName("l/m", "m")
		f.NoFormat = true
		f.Var().Id("_").Op("=").List(jen.Qual("x/yaml.v2", "Marshal"), jen.Qual("a/f", "X"), jen.Qual("b/f", "Y"), jen.Qual("l/m", "Local"), jen.Qual("d/go", "K"), jen.Qual("d/9", "N"), jen.Qual("s/lash/", "S"))
		f.Type().Id("T").Struct(jen.Id("A").Int().Tag(map[string]string{"json": "a", "db": "b"}))
		f.Var().Id("m").Op("=").Map(jen.String()).Int().Values(jen.Dict{k(jen.Lit("k1")): jen.Lit(1), k(jen.Lit("k2")): jen.Qual("e/f", "V"), k(jen.Qual("a/f", "K")): jen.Lit(3)})
		return c09Out(f)
	}},
	{"failing-render", func(k func(jen.Code) jen.Code) string {
		f := jen.NewFile("r")
		f.Var().Id("x").Op("=").Qual("a/f", "X").Op("{").Lit("unbalanced")
		return c09Out(f)
	}},
	{"fragment-and-gostring", func(k func(jen.Code) jen.Code) string {
		s := jen.Qual("b/f", "Y").Call(jen.Qual("a/f", "X"), jen.Lit("s"))
		var b bytes.Buffer
		if err := s.Render(&b); err != nil {
			return "ERROR " + err.Error()
		}
		return b.String() + "|" + fmt.Sprintf("%#v", jen.Qual("x/yaml.v2", "Marshal").Call())
	}},
}

// c09Index is a package-name index shared (read-only, as far as the jobs go) by several Files,
// the way a generated gennames table is used.
var c09Index = map[string]string{"x/yaml.v2": "yaml", "e/util": "util", "fmt": "fmt"}

func init() {
	c09Jobs = append(c09Jobs,
		c09Job{"failing-fragment", func(k func(jen.Code) jen.Code) string {
			var b bytes.Buffer
			if err := jen.Qual("a/f", "Q").Op("{").Qual("b/f", "R").Render(&b); err != nil {
				return "ERROR " + jh.Short(err.Error(), 60)
			}
			return b.String()
		}},
		c09Job{"shared-index-user", func(k func(jen.Code) jen.Code) string {
			f := jen.NewFile("u")
			f.ImportNames(c09Index)
			f.Var().Id("_").Op("=").List(jen.Qual("e/yaml.v3", "Marshal"), jen.Qual("e/util", "X"), jen.Qual("x/yaml.v2", "Y"), jen.Qual("e/7", "N"), jen.Qual("t/lash/", "S"))
			return c09Out(f)
		}},
		c09Job{"shared-index-extender", func(k func(jen.Code) jen.Code) string {
			f := jen.NewFile("v")
			f.ImportNames(c09Index)
			f.ImportNames(map[string]string{"e/yaml.v3": "yaml3", "d/util": "util"})
			f.Var().Id("_").Op("=").List(jen.Qual("e/yaml.v3", "Marshal"), jen.Qual("d/util", "X"))
			return c09Out(f)
		}},
		// numeric literals that compare equal as Go values but are written differently
		c09Job{"zero-literals", func(k func(jen.Code) jen.Code) string {
			f := jen.NewFile("z")
			f.Var().Id("_").Op("=").Index().Any().Values(jen.Lit(0.0), jen.Lit(float32(0)), jen.Lit(complex(0, 0)), jen.Lit(complex64(0)), jen.Lit(1.0), jen.Lit(uint8(1)), jen.Lit(int64(1)), jen.Lit(true))
			return c09Out(f)
		}},
		c09Job{"negative-zero-literals", func(k func(jen.Code) jen.Code) string {
			nz := math.Copysign(0, -1)
			f := jen.NewFile("z")
			f.Var().Id("_").Op("=").Index().Any().Values(jen.Lit(nz), jen.Lit(float32(nz)), jen.Lit(complex(nz, nz)), jen.Lit(complex64(complex(nz, 0))), jen.Lit(1), jen.Lit(int8(1)), jen.Lit(uint64(1)), jen.Lit("true"))
			return c09Out(f)
		}},
		// a File that declares a package under a name that is not its path's last element, and a client
		// of that package built independently (no hint)
		c09Job{"declares-api-types", func(k func(jen.Code) jen.Code) string {
			f := jen.NewFilePathName("x.io/gen/api-types", "types")
			f.Type().Id("T").Struct()
			return c09Out(f)
		}},
		c09Job{"client-of-api-types", func(k func(jen.Code) jen.Code) string {
			f := jen.NewFile("client")
			f.Var().Id("_").Op("=").Qual("x.io/gen/api-types", "T").Values()
			return c09Out(f)
		}},
		// File.Save of two Files into one directory
		c09Job{"save-a", func(k func(jen.Code) jen.Code) string { return c09Save("a.go", "save_a") }},
		c09Job{"save-b", func(k func(jen.Code) jen.Code) string { return c09Save("b.go", "save_b") }})
}

// c09Save saves a small File under dir/<name> (dir = the run's scratch directory) and returns
// what the saved file contains.
func c09Save(name, pkg string) string {
	dir := filepath.Join(os.Getenv("VERIF_SCRATCH"), "c09save")
	if os.Getenv("VERIF_SCRATCH") == "" {
		dir = filepath.Join(os.TempDir(), fmt.Sprintf("verif-c09save-%d", os.Getpid()))
	}
	os.MkdirAll(dir, 0o755)
	f := jen.NewFile(pkg)
	f.Var().Id("_").Op("=").Qual("a/f", "X").Call(jen.Lit(pkg))
	target := filepath.Join(dir, name)
	o := jh.Catch(func() (string, error) { return "", f.Save(target) })
	if !o.OK() {
		return "SAVE FAILED: " + jh.Short(strings.ReplaceAll(o.String(), dir, "<dir>"), 200)
	}
	b, err := os.ReadFile(target)
	if err != nil {
		return "READ BACK FAILED: " + strings.ReplaceAll(err.Error(), dir, "<dir>")
	}
	return string(b)
}

func c09Bodies(ctl *env.Controller, idx []int) []func() string {
	var out []func() string
	for _, i := range idx {
		j := c09Jobs[i]
		out = append(out, func() string {
			return j.body(func(c jen.Code) jen.Code {
				if ctl != nil {
					ctl.Key(c)
				}
				return c
			})
		})
	}
	return out
}

// C09Solo prints, as JSON, the outputs of the named jobs (default: all) run in this (pristine)
// process; the check starts one process per job, so that nothing at all precedes a solo run.
func C09Solo(only ...string) {
	outs := map[string]string{}
	for i, j := range c09Jobs {
		if len(only) > 0 && only[0] != j.name {
			continue
		}
		outs[j.name] = c09Bodies(nil, []int{i})[0]()
	}
	json.NewEncoder(os.Stdout).Encode(outs)
}

// C09Race runs the job bodies on free-running goroutines (to be executed in a -race build).
func C09Race(rounds int) {
	for r := 0; r < rounds; r++ {
		var wg sync.WaitGroup
		for i := range c09Jobs {
			for rep := 0; rep < 2; rep++ {
				wg.Add(1)
				go func(i int) {
					defer wg.Done()
					c09Bodies(nil, []int{i})[0]()
				}(i)
			}
		}
		wg.Wait()
	}
	fmt.Println("race pass done")
}

// blockingWriter signals that it was reached and then blocks until released.
type blockingWriter struct {
	entered chan<- int
	release <-chan struct{}
	id      int
	once    sync.Once
}

func (w *blockingWriter) Write(p []byte) (int, error) {
	w.once.Do(func() { w.entered <- w.id })
	<-w.release
	return len(p), nil
}

// C09Block (run in a process of its own, with a small GOMAXPROCS): GOMAXPROCS+2 independent Files and
// fragments are rendered on goroutines of their own into writers that block; every render must get
// as far as its writer although all the others sit in theirs. Prints {"renders": n, "reached": k}.
func C09Block() {
	n := runtime.GOMAXPROCS(0) + 2
	entered := make(chan int, 2*n)
	release := make(chan struct{})
	for i := 0; i < n; i++ {
		i := i
		go func() {
			w := &blockingWriter{entered: entered, release: release, id: i}
			if i%2 == 0 {
				f := jen.NewFile(fmt.Sprintf("p%d", i))
				f.Var().Id("x").Op("=").Qual("a/f", "X").Call(jen.Lit(i))
				f.Render(w)
			} else {
				jen.Id("x").Op("=").Qual("b/f", "Y").Call(jen.Lit(i)).Render(w)
			}
		}()
	}
	reached := map[int]bool{}
	deadline := time.After(90 * time.Second)
wait:
	for len(reached) < n {
		select {
		case id := <-entered:
			reached[id] = true
		case <-deadline:
			break wait
		}
	}
	json.NewEncoder(os.Stdout).Encode(map[string]int{"renders": n, "reached": len(reached)})
	close(release)
}

type c09Case struct {
	Kind   string `json:"kind"` // schedule | order | share
	Jobs   []int  `json:"jobs"`
	Vector []int  `json:"vector,omitempty"`
	Desc   string `json:"description"`
}

type c09Access struct {
	job   int
	write bool
}

// ---- sharing of sub-statements between two Files

type c09Shared struct {
	name string
	mk   func() jen.Code
}

var c09SharedParts = []c09Shared{
	{"Qual(a/f)", func() jen.Code { return jen.Qual("a/f", "X").Call() }},
	{"Case+Block", func() jen.Code {
		return jen.Switch(jen.Lit(0)).Block(jen.Case(jen.Lit(1)).Block(jen.Qual("a/f", "Y").Call()), jen.Default().Block())
	}},
	{"Dict", func() jen.Code {
		return jen.Id("_").Op("=").Map(jen.Int()).Int().Values(jen.Dict{jen.Qual("a/f", "K"): jen.Qual("b/f", "V"), jen.Qual("b/f", "K"): jen.Lit(1)})
	}},
	{"bare-Block", nil}, // handled specially: one Block used after Case in one File and after If in the other
	{"Local-Qual", func() jen.Code { return jen.Qual("l/one", "Here").Call() }},
	{"Table-of-40-Dict-rows", func() jen.Code {
		var rows []jen.Code
		for i := 0; i < 40; i++ {
			rows = append(rows, jen.Values(jen.Dict{jen.Id("K"): jen.Qual("a/f", fmt.Sprintf("V%d", i)), jen.Id("L"): jen.Lit(i)}))
		}
		return jen.Id("_").Op("=").Index().Id("T").Values(rows...)
	}},
	{"Clones-of-one-base", nil},      // each File appends to its own Clone() of one base statement that has spare capacity
	{"Add-of-one-prefix-slice", nil}, // each File builds its own statement with Add(prefix...) from one slice that has spare capacity, and extends it
}

type c09FileCfg struct {
	name  string
	build func() *jen.File
}

var c09FileCfgs = []c09FileCfg{
	{"plain", func() *jen.File { return jen.NewFile("a") }},
	{"local+prefix", func() *jen.File { f := jen.NewFilePathName("l/one", "one"); f.PackagePrefix = "pp"; return f }},
	{"hints", func() *jen.File {
		f := jen.NewFile("b")
		f.ImportAlias("a/f", "alpha")
		f.ImportAlias("b/f", ".")
		return f
	}},
	{"noformat+taken", func() *jen.File {
		f := jen.NewFile("c")
		f.NoFormat = true
		f.Var().Id("_").Op("=").Qual("z/f", "First")
		return f
	}},
}

// c09Place puts the shared parts into a File; which selects where the bare Block goes.
func c09Place(f *jen.File, parts []jen.Code, block *jen.Statement, afterCase bool) {
	f.Func().Id("Fn").Params().BlockFunc(func(g *jen.Group) {
		for _, p := range parts {
			g.Add(p)
		}
		if block != nil {
			if afterCase {
				g.Switch(jen.Lit(0)).Block(jen.Case(jen.Lit(2)).Add(block))
			} else {
				g.If(jen.True()).Add(block)
			}
		}
	})
}

// c09Share renders two Files that share the selected parts, in the given order (twice each),
// and compares with Files built privately. Returns "" or a description.
func c09Share(mask int, cfgA, cfgB int, bFirst bool) (msg string, nontrivial bool) {
	// build returns the parts for File A and for File B (the same objects, except for the clones
	// of one shared base statement, of which each File gets its own) and the bare Block
	build := func(wantA, wantB bool) (partsA, partsB []jen.Code, block *jen.Statement) {
		for i, sp := range c09SharedParts {
			if mask&(1<<i) == 0 {
				continue
			}
			switch sp.name {
			case "bare-Block":
				block = jen.Block(jen.Qual("a/f", "InBlock").Call())
			case "Clones-of-one-base":
				base := jen.Id("x").Dot("f1").Dot("f2")
				if wantA {
					partsA = append(partsA, base.Clone().Call(jen.Lit(1)))
				}
				if wantB {
					partsB = append(partsB, base.Clone().Index(jen.Lit(0)))
				}
			case "Add-of-one-prefix-slice":
				prefix := append(make([]jen.Code, 0, 8), jen.Id("cfg"), jen.Op("."), jen.Id("Limit"), jen.Op("="))
				if wantA {
					partsA = append(partsA, jen.Add(prefix...).Lit(10))
				}
				if wantB {
					partsB = append(partsB, jen.Add(prefix...).Lit(20))
				}
			default:
				p := sp.mk()
				partsA = append(partsA, p)
				partsB = append(partsB, p)
			}
		}
		return
	}
	private := func(cfg int, isA bool) string {
		f := c09FileCfgs[cfg].build()
		pa, pb, block := build(isA, !isA)
		if isA {
			c09Place(f, pa, block, true)
		} else {
			c09Place(f, pb, block, false)
		}
		return c09Out(f)
	}
	wantA, wantB := private(cfgA, true), private(cfgB, false)
	pa, pb, block := build(true, true)
	fa, fb := c09FileCfgs[cfgA].build(), c09FileCfgs[cfgB].build()
	c09Place(fa, pa, block, true)
	c09Place(fb, pb, block, false)
	var gotA, gotB string
	if bFirst {
		gotB, gotA = c09Out(fb), c09Out(fa)
	} else {
		gotA, gotB = c09Out(fa), c09Out(fb)
	}
	againA, againB := c09Out(fa), c09Out(fb)
	switch {
	case gotA != wantA:
		msg = fmt.Sprintf("File A (%s) renders\n%s\nbut built privately it renders\n%s", c09FileCfgs[cfgA].name, gotA, wantA)
	case gotB != wantB:
		msg = fmt.Sprintf("File B (%s) renders\n%s\nbut built privately it renders\n%s", c09FileCfgs[cfgB].name, gotB, wantB)
	case againA != wantA || againB != wantB:
		msg = "a File renders differently the second time, after the other File was rendered"
	}
	return msg, wantA != wantB
}

func runC09(r *ev.Recorder) {
	if !env.Instrumented {
		fmt.Fprintln(os.Stderr, "C09 needs the instrumented build (run it through run.sh)")
		os.Exit(2)
	}
	bound := 2
	jobSets := [][]int{{0, 1}, {1, 2}, {0, 2}, {3, 0}, {1, 4}, {2, 4}, {3, 2}, {1, 1}, {0, 0}, {2, 2}, {5, 4}, {6, 7}, {7, 7}, {7, 1}}
	byName := map[string]int{}
	for i, j := range c09Jobs {
		byName[j.name] = i
	}
	jobSets = append(jobSets, []int{byName["zero-literals"], byName["negative-zero-literals"]}, []int{byName["save-a"], byName["save-b"]}, []int{byName["save-a"], byName["save-a"]}, []int{byName["save-b"], byName["save-a"], byName["hinted"]}, []int{byName["declares-api-types"], byName["client-of-api-types"]})
	if r.Tier == ev.Thorough {
		bound = 3
		jobSets = append(jobSets, []int{0, 1, 2}, []int{3, 1, 2}, []int{1, 2, 4}, []int{0, 3, 4}, []int{1, 0, 3})
		r.SetDeadline(45 * 60 * 1e9)
	} else {
		jobSets = append(jobSets, []int{0, 1, 2}, []int{3, 1, 2})
		r.SetDeadline(6 * 60 * 1e9)
	}
	var jn []string
	for _, j := range c09Jobs {
		jn = append(jn, j.name)
	}
	r.Rule = fmt.Sprintf("(1) schedules: jobs %v (each builds and renders its own File / fragment; designed to collide on base names, hints, prefix, Dict, Case/Block, a failing render) run under the cooperative scheduler; "+
		"scheduling points = every statement touching a package-level variable of jennifer or calling into os / io/ioutil (the file system, which File.Save of several Files shares; inserted by the instrumenter from go/types on the current tree) + job start/end; all interleavings with <= %d preemptions for %d job sets; "+
		"package-level variables are snapshotted and restored per execution, map order pinned to canonical. Oracle: every job's output equals its solo output computed in a pristine process of its own (one process per job); and, when the package uses no synchronisation at all, "+
		"no package-level variable is written by one job and accessed by another (a data race by construction). "+
		"(2) histories: every permutation of the first five and every ordered triple of all %d jobs rendered sequentially in one process, each sequence twice; then 1500 failing and (recovered) panicking renders of unrelated Files followed by every job again; every subset of 8 shareable parts (two statements made by Add(prefix...) from one slice with spare capacity and extended by chaining - one per File; a table of 40 composite-literal rows built with Dict, a Qual, a Case+Block, a Dict, a bare Block used after Case in one File and after If in the other, a Qual that is local to one File, two Clones of one base statement with spare capacity - one per File) "+
		"shared between two Files of 4 configurations, rendered in both orders and twice - each output must equal that of a File built privately. "+
		"every exported builder x C14's argument combinations rendered in ascending and then in descending order of cases: same bytes both times. (3) race pass: the same job bodies on free-running goroutines in a -race build (complement: a cooperative scheduler's hand-offs hide unsynchronised accesses). "+
		"states = schedules + orders + sharings executed; distinct_nontrivial = distinct schedules with at least one preemption + sharings between Files whose private renderings differ", jn, bound, len(jobSets), len(c09Jobs))
	r.Assume = []string{"jobs share no Code values in (1) and (3), as the property's hypothesis states", "accesses to package-level variables are the only non-commuting steps of independent jobs (jennifer uses no locks, channels or atomics; the instrumenter reports if that changes)",
		"memory-model effects weaker than sequential consistency are not modelled; data-race freedom is decided by the race detector pass and the write report",
		"state kept outside the jennifer package gets no scheduling points (still visible to the history exploration)"}

	self := os.Getenv("VERIF_SELF")
	solo := map[string]string{}
	if self != "" {
		r.External(func() {
			var wg sync.WaitGroup
			var mu sync.Mutex
			for _, j := range c09Jobs {
				j := j
				wg.Add(1)
				go func() {
					defer wg.Done()
					one := map[string]string{}
					out, err := shardCommand(self, "c09solo", j.name).Output()
					if err != nil || json.Unmarshal(out, &one) != nil || len(one) != 1 {
						fmt.Fprintln(os.Stderr, "C09: solo process failed:", j.name, err)
						os.Exit(2)
					}
					mu.Lock()
					solo[j.name] = one[j.name]
					mu.Unlock()
				}()
			}
			wg.Wait()
		})
	} else {
		for i, j := range c09Jobs {
			solo[j.name] = c09Bodies(nil, []int{i})[0]()
		}
	}

	var states, transitions int64
	snap0 := sched.Take(env.Globals())
	stop := func() bool { return r.Expired() || r.Violations() > 100 }
	// (2a) orders: every permutation of the first five jobs, and every ordered triple of all jobs;
	// each sequence is run twice in a row (every job again after the others)
	n := len(c09Jobs)
	var seqs [][]int
	seqs = append(seqs, explore.Perms(5)...)
	for a := 0; a < n; a++ {
		for b := 0; b < n; b++ {
			for c := 0; c < n; c++ {
				if a != b && b != c && a != c {
					seqs = append(seqs, []int{a, b, c})
				}
			}
		}
	}
	for pi, perm := range seqs {
		if stop() {
			r.NotExhaustive("order exploration stopped early (deadline, or more than 100 violations already found)")
			break
		}
		var got []string
		for pass := 0; pass < 2; pass++ {
			for _, i := range perm {
				got = append(got, c09Bodies(nil, []int{i})[0]())
			}
		}
		r.Eval(1)
		states++
		transitions += int64(len(got))
		for k, o := range got {
			j := c09Jobs[perm[k%len(perm)]]
			if o != solo[j.name] {
				desc := fmt.Sprintf("jobs rendered sequentially in order %v (then all again): render #%d (%s) differs from its solo output", perm, k+1, j.name)
				r.Violate(ev.Violation{Signature: "c09:order:" + j.name, What: desc, Case: ev.JSON(c09Case{Kind: "order", Jobs: perm, Desc: desc}), Detail: fmt.Sprintf("--- got\n%s\n--- solo\n%s", o, solo[j.name])})
				break
			}
		}
		if pi == 1 {
			r.Sample(map[string]any{"order": perm, "first_output": jh.Short(got[0], 300)})
		}
	}
	// (2a') many failing renders in a row (invalid compositions and build-time panics that the
	// caller recovers), then every job again
	// (skipped once violations were found: state leaking from failed renders can grow without bound)
	for i := 0; i < 1500 && r.Violations() == 0; i++ {
		jh.Catch(func() (string, error) {
			f := jen.NewFile("z")
			f.Func().Id("deep").Params().Block(jen.If(jen.True()).Block(jen.For().Block(jen.Id("x").Op("=").Index().Int().Values(jen.Lit(struct{ A int }{i})))))
			return f.GoString(), nil
		})
		jh.RenderFile(func() *jen.File { f := jen.NewFile("z"); f.Func().Id("g").Params().Block(jen.Op("}")); return f }())
		jh.Catch(func() (string, error) {
			return jen.Values(jen.Dict{jen.Lit(1): jen.Lit(2)}, jen.Lit(3)).GoString(), nil
		})
	}
	for i, j := range c09Jobs {
		o := c09Bodies(nil, []int{i})[0]()
		r.Eval(1)
		states++
		if o != solo[j.name] {
			desc := fmt.Sprintf("after 1500 failing and panicking renders of unrelated Files, job %s differs from its solo output", j.name)
			r.Violate(ev.Violation{Signature: "c09:after-failures:" + j.name, What: desc, Case: ev.JSON(c09Case{Kind: "order", Jobs: []int{i}, Desc: desc}), Detail: fmt.Sprintf("--- got\n%s\n--- solo\n%s", o, solo[j.name])})
		}
	}
	// (2c) every exported builder x every argument combination of C14's domains, as a File of its own
	// and stand-alone (GoString): all cases in order, then all cases in reverse order - each case
	// must give the same bytes in both passes, whatever was built and rendered before it
	{
		cs, _ := c14Constructs()
		type cc struct {
			c     c14Construct
			combo []int
		}
		var all []cc
		for _, c := range cs {
			for _, combo := range combos(c.domains) {
				all = append(all, cc{c, combo})
			}
		}
		renderCase := func(x cc) string {
			st := jen.Var().Id("_").Op("=")
			if _, p := call(reflect.ValueOf(st).MethodByName(x.c.name), x.c.args(x.combo, new(int)), x.c.isVar); p != nil {
				return "build panic"
			}
			f := jen.NewFile("p")
			f.NoFormat = true
			f.Add(st)
			return c09Out(f) + "\x00" + jh.Catch(func() (string, error) { return st.GoString(), nil }).Key()
		}
		first := make([]string, len(all))
		for i, x := range all {
			first[i] = renderCase(x)
		}
		for i := len(all) - 1; i >= 0 && !stop(); i-- {
			got := renderCase(all[i])
			r.Eval(1)
			states++
			transitions += 2
			if got != first[i] {
				desc := fmt.Sprintf("%s rendered among all other constructs: in ascending order of cases it gives different bytes than in descending order", all[i].c.describe(all[i].combo))
				r.Violate(ev.Violation{Signature: "c09:construct-order:" + all[i].c.name, What: desc, Case: ev.JSON(c09Case{Kind: "order", Desc: desc}), Detail: fmt.Sprintf("--- ascending pass\n%s\n--- descending pass\n%s", first[i], got)})
			}
		}
		r.Note("construct_cases_rendered_in_both_orders", len(all))
	}
	if changed := snap0.Changed(); len(changed) > 0 {
		sort.Strings(changed)
		r.Note("package_level_variables_changed_by_rendering", changed)
	}

	// (2b) sharing
	for mask := 1; mask < 1<<len(c09SharedParts); mask++ {
		for a := range c09FileCfgs {
			for b := range c09FileCfgs {
				if a == b {
					continue
				}
				for _, bFirst := range []bool{false, true} {
					msg, nontrivial := c09Share(mask, a, b, bFirst)
					r.Eval(1)
					states++
					transitions += 4
					desc := fmt.Sprintf("parts mask %05b shared between File %s and File %s (B first: %v)", mask, c09FileCfgs[a].name, c09FileCfgs[b].name, bFirst)
					if nontrivial {
						r.Distinct(desc)
					}
					if msg != "" {
						var shared []string
						for i, sp := range c09SharedParts {
							if mask&(1<<i) != 0 {
								shared = append(shared, sp.name)
							}
						}
						r.Violate(ev.Violation{Signature: "c09:share:" + strings.Join(shared, "+"), What: desc + ": " + jh.Short(msg, 200),
							Case: ev.JSON(c09Case{Kind: "share", Jobs: []int{mask, a, b, map[bool]int{false: 0, true: 1}[bFirst]}, Desc: desc}), Detail: msg})
					}
				}
			}
		}
	}

	// (2d) independent renders do not wait for each other: in a process with GOMAXPROCS=2, four
	// renders into writers that block
	if self != "" {
		cmd := shardCommand(self, "c09block")
		cmd.Env = append(os.Environ(), "GOMAXPROCS=2")
		var out []byte
		var err error
		r.External(func() { out, err = cmd.Output() })
		var res map[string]int
		if err != nil || json.Unmarshal(out, &res) != nil {
			fmt.Fprintf(os.Stderr, "C09: blocked-writer process failed: %v\n%s\n", err, out)
			os.Exit(2)
		}
		r.Eval(1)
		states++
		r.Note("blocked_writers", res)
		if res["reached"] != res["renders"] {
			desc := fmt.Sprintf("%d independent Files / fragments rendered on goroutines of their own into writers that block (GOMAXPROCS=2): only %d reached their writer within 90 s - the others wait for a render that is not theirs", res["renders"], res["reached"])
			r.Violate(ev.Violation{Signature: "c09:renders-wait-for-each-other", What: desc, Case: ev.JSON(c09Case{Kind: "race", Desc: desc}), Detail: desc})
		}
	}

	// (3) race pass
	if rb := os.Getenv("VERIF_RACE_BIN"); rb != "" {
		rounds := "60"
		if r.Tier == ev.Thorough {
			rounds = "400"
		}
		cmd := exec.Command(rb, "c09race", rounds)
		cmd.Env = append(os.Environ(), "GORACE=halt_on_error=0 exitcode=66")
		var out []byte
		var err error
		r.External(func() { out, err = cmd.CombinedOutput() })
		nraces := strings.Count(string(out), "WARNING: DATA RACE")
		r.Note("race_pass", map[string]any{"rounds": rounds, "goroutines_per_round": 2 * len(c09Jobs), "data_race_reports": nraces})
		if nraces > 0 {
			i := strings.Index(string(out), "WARNING: DATA RACE")
			r.Violate(ev.Violation{Signature: "c09:data-race", What: fmt.Sprintf("the race detector reports %d data race(s) when the jobs run on free goroutines", nraces),
				Case: ev.JSON(c09Case{Kind: "race", Desc: "race pass"}), Detail: jh.Short(string(out)[i:], 3000)})
		} else if err != nil {
			fmt.Fprintf(os.Stderr, "C09: race pass failed to run: %v\n%s\n", err, jh.Short(string(out), 2000))
			os.Exit(2)
		}
	} else {
		r.Note("race_pass", "skipped: no -race binary (run through run.sh)")
		r.NotExhaustive("race pass skipped")
	}
	// (1) schedules
	snap := sched.Take(env.Globals())
	ctl := env.NewController(nil)
	remove := env.Install(ctl)
	syncUsed := false
	if b, err := os.ReadFile(os.Getenv("VERIF_INSTR_LOG")); err == nil {
		r.Note("instrumenter", strings.TrimSpace(string(b)))
		syncUsed = !strings.Contains(string(b), "sync/goroutine uses: 0")
	}
	racy := map[string]bool{}
	pointsSeen := map[string]int{}
	schedStats := map[string]any{}
	for _, set := range jobSets {
		set := set
		var names []string
		for _, i := range set {
			names = append(names, c09Jobs[i].name)
		}
		outcomes := map[string]bool{}
		st := explore.Explore(explore.Options{MaxDev: bound, Workers: 1, Stop: stop, OnDivergence: func(vec []int, msg string) {
			// with package-level variables restored and the schedule fixed, jennifer must behave
			// as a function of the schedule; if it does not, state survives somewhere else
			desc := fmt.Sprintf("jobs %v: replaying schedule prefix %v met different scheduling points than the execution that recorded it (%s)", names, vec, msg)
			r.Violate(ev.Violation{Signature: "c09:not-a-function-of-the-schedule", What: desc, Case: ev.JSON(c09Case{Kind: "schedule", Jobs: set, Vector: vec, Desc: desc}),
				Detail: "package-level variables are restored before every execution and map order is pinned, so behaviour that differs between two executions of the same schedule prefix means state is kept outside the Files (e.g. in a pool or cache the snapshot cannot restore: " + fmt.Sprint(snap.Opaque) + ")"})
		}}, func(c *explore.Ctx) {
			snap.Restore()
			outs, trace, ok := sched.Run(c, c09Bodies(ctl, set))
			r.Eval(1)
			states++
			transitions += int64(len(trace))
			if c.Devs > 0 {
				r.Distinct(fmt.Sprintf("%v%v", set, c.Vector()))
			}
			desc := fmt.Sprintf("jobs %v schedule %v", names, c.Vector())
			if !ok {
				r.Violate(ev.Violation{Signature: "c09:livelock", What: desc + ": step horizon exceeded", Case: ev.JSON(c09Case{Kind: "schedule", Jobs: set, Vector: c.Vector(), Desc: desc})})
				return
			}
			outcomes[strings.Join(outs, "\x00")] = true
			acc := map[string][]c09Access{}
			for _, e := range trace {
				if e.Site == "" {
					continue
				}
				pointsSeen[e.Site]++
				parts := strings.SplitN(e.Site, ":", 4)
				if len(parts) == 4 {
					for _, v := range strings.Split(parts[3], ",") {
						acc[v] = append(acc[v], c09Access{e.Job, parts[2] == "w"})
					}
				}
			}
			for v, as := range acc {
				for _, a := range as {
					for _, b := range as {
						if a.job != b.job && a.write && !syncUsed && !racy[v] && !strings.HasPrefix(v, "<") {
							racy[v] = true
							r.Violate(ev.Violation{Signature: "c09:unsynchronised-write:" + v, What: fmt.Sprintf("%s: package-level variable %s is written by job %d and accessed by job %d without any synchronisation in the package", desc, v, a.job, b.job),
								Case: ev.JSON(c09Case{Kind: "schedule", Jobs: set, Vector: c.Vector(), Desc: desc}), Detail: fmt.Sprint(trace)})
						}
					}
				}
			}
			for i, o := range outs {
				if want := solo[c09Jobs[set[i]].name]; o != want {
					r.Violate(ev.Violation{Signature: "c09:schedule:" + c09Jobs[set[i]].name, What: fmt.Sprintf("%s: job %d (%s) differs from its solo output", desc, i, c09Jobs[set[i]].name),
						Case: ev.JSON(c09Case{Kind: "schedule", Jobs: set, Vector: c.Vector(), Desc: desc}), Detail: fmt.Sprintf("trace %v\n--- got\n%s\n--- solo\n%s", trace, o, want)})
					break
				}
			}
		})
		schedStats[strings.Join(names, "+")] = map[string]any{"schedules": st.Executions, "per_preemption_level": st.PerLevel, "max_points": st.MaxPoints, "distinct_outcomes": len(outcomes), "complete": st.Complete}
		if !st.Complete {
			r.NotExhaustive("schedule exploration stopped early (deadline, or more than 100 violations already found)")
		}
	}
	snap.Restore()
	remove()
	r.Note("schedule_exploration", schedStats)
	r.Note("scheduling_points_hit", pointsSeen)
	r.Note("globals_not_restorable", snap.Opaque)
	r.Sample(map[string]any{"jobs": []string{c09Jobs[0].name, c09Jobs[1].name}, "example_schedule": "see schedule_exploration; a schedule is the vector of choices among enabled jobs at each scheduling point"})

	r.Note("states", states)
	r.Note("transitions", transitions)
	r.Note("traces_validated_against_impl", states)
}

func replayC09(raw json.RawMessage) (bool, string) {
	var c c09Case
	if err := json.Unmarshal(raw, &c); err != nil {
		return true, "bad case"
	}
	solo := map[string]string{}
	if self := os.Getenv("VERIF_SELF"); self != "" {
		out, _ := shardCommand(self, "c09solo").Output()
		json.Unmarshal(out, &solo)
	}
	if len(solo) == 0 {
		for i, j := range c09Jobs {
			solo[j.name] = c09Bodies(nil, []int{i})[0]()
		}
	}
	switch c.Kind {
	case "schedule":
		if !env.Instrumented {
			return true, "needs the instrumented build"
		}
		ctl := env.NewController(nil)
		remove := env.Install(ctl)
		defer remove()
		outs, trace, ok := sched.Run(explore.NewReplay(c.Vector), c09Bodies(ctl, c.Jobs))
		if !ok {
			return false, "livelock"
		}
		for i, o := range outs {
			if o != solo[c09Jobs[c.Jobs[i]].name] {
				return false, fmt.Sprintf("%s: job %d differs from solo\ntrace %v\n--- got\n%s\n--- solo\n%s", c.Desc, i, trace, o, solo[c09Jobs[c.Jobs[i]].name])
			}
		}
		return true, c.Desc + ": all jobs equal their solo output"
	case "order":
		for _, i := range c.Jobs {
			if o := c09Bodies(nil, []int{i})[0](); o != solo[c09Jobs[i].name] {
				return false, fmt.Sprintf("%s\n--- got\n%s\n--- solo\n%s", c.Desc, o, solo[c09Jobs[i].name])
			}
		}
		for _, i := range c.Jobs {
			if o := c09Bodies(nil, []int{i})[0](); o != solo[c09Jobs[i].name] {
				return false, fmt.Sprintf("%s (second pass)\n--- got\n%s\n--- solo\n%s", c.Desc, o, solo[c09Jobs[i].name])
			}
		}
		return true, c.Desc + ": holds"
	case "share":
		msg, _ := c09Share(c.Jobs[0], c.Jobs[1], c.Jobs[2], c.Jobs[3] == 1)
		return msg == "", c.Desc + ": " + msg
	}
	return true, "the race pass is replayed by running the check"
}
