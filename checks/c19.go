package checks

import (
	"fmt"
	"io"
	"strings"

	"github.com/dave/jennifer/jen"

	"verif/internal/ev"
	"verif/internal/imp"
)

// C19: the "C" import is never renamed and its preamble sits directly above it.

var c19Preambles = [][]string{
	nil,
	{"#include <stdlib.h>"},
	{"#include <stdlib.h>\n"},
	{"#include <a.h>\n#include <b.h>"},
	{"/* #include <raw.h> */"},
	{"// #cgo LDFLAGS: -lm"},
	{"#include <a.h>", "int f(void);\nint g(void);"},
	{"// #cgo CFLAGS: -O2", "#include <b.h>\n"},
	{"/*\n#include <c.h>\n*/", "// trailing"},
	{"#include <a.h>\n\nint z;"},
	{"a */ b"},
	{"#include <a.h>", "#cgo LDFLAGS: -lm"},
	{"typedef int t;", "// #cgo CFLAGS: -O2", "#cgo pkg-config: x\nt f(void);"},
	{"#include <a.h>", "", "int f(void);"},
	{"#include <a.h>", "#include <a.h>", "#endif", "#endif"},
	{"int x; /* c */\n\nint y;"},
	{"int x;\n/* c */", "#include <a.h>"},
	{"#include <a.h>\nstatic const char table[] = {" + strings.Repeat("1,", 40000) + "};\nint after(void);"},
}

var c19Check = &impCheck{
	id: "C19",
	judge: func(a *imp.Analysis, w *imp.World) []string {
		out := imp.CheckCgo(a, w)
		out = append(out, imp.CheckExact(a, w)...)
		return append(out, imp.CheckResolve(a, w)...)
	},
	// a multi-line preamble in the automatic form is wrapped in /* */: one that contains */ itself
	// cannot be written that way, and an error is an acceptable answer
	tolerateFailure: func(w *imp.World) bool {
		for _, p := range w.Preamble {
			if strings.Contains(p, "\n") && strings.Contains(p, "*/") && !strings.HasPrefix(p, "/*") && !strings.HasPrefix(p, "//") {
				return true
			}
		}
		return false
	},
	nontrivial: func(a *imp.Analysis, w *imp.World) bool {
		for _, s := range a.Specs {
			if s.Path == "C" {
				return len(a.Specs) > 1 || len(w.Preamble) > 0
			}
		}
		return false
	},
	sys: newRawSystem("NewFile", "", []string{"C", "b/C", "fmt", "9fans.net/go"}, map[string]string{"b/C": "C", "C": "C"},
		[]string{"C", "c", "."}, []int{0}, true, "pkg",
		rawOp{"CgoPreamble(one-line)", func(w *imp.World) { w.CgoPreamble("#include <a.h>") }},
		rawOp{"CgoPreamble(multi-line)", func(w *imp.World) { w.CgoPreamble("int f(void);\nint g(void);") }}),
	bfsDepth: [2]int{4, 5},
	dev:      [2]int{2, 5},
	fams: []*family{
		{name: "cgo", ctors: []string{"NewFile", "NewFilePathName"}, local: "l/p", paths: []string{"C", "b/C", "a/c", "fmt", "os", "x/y", "9fans.net/go", "B/b"},
			names:   map[string]string{"b/C": "C", "a/c": "c", "C": "C", "x/y": "y"},
			aliases: []string{"C", "c", ".", "_"}, prefixes: []string{"pkg", "C"}, maxRefs: 4, freeRefs: 2, wrappers: []int{0, imp.WrapperIndex("dictkey")},
			anon: true, extra: true, last: true, doubles: true, preambleOpts: c19Preambles, noFormat: true},
	},
}

func init() {
	register(&Check{ID: "C19", Level: "model_checking", Run: func(r *ev.Recorder) {
		r.Rule = "(1) explicit-state BFS over one real File: Qual(\"C\", s), Anon(\"C\"), ImportName(\"C\", x), ImportAlias(\"C\", C|c|.), the same for a package b/C whose real name is C and for fmt, one-line and multi-line CgoPreamble blocks, PackagePrefix - in every order up to the depth bound. " +
			"(2) canonical histories: every reference sequence over {C, b/C, a/c, fmt, os, x/y, 9fans.net/go, B/b} (paths that sort before and after \"C\") x 18 preamble lists (0-4 blocks; #cgo directive blocks after other blocks; an empty block; identical blocks; one with an 80 KB line; blank lines inside a block; */ inside a one-line and inside a multi-line block - for the latter an error is accepted, since the automatic /* */ form cannot hold it; one-line, one-line with trailing newline, multi-line, raw /* */ and // forms) x hints naming \"C\" (ImportName, ImportAlias C, c, ., _ ; double hints; hints after the references) x Anon x prefix {pkg, C}, within the deviation bound. " +
			"(3) every history of 5 (thorough: 6) operations over {Anon C, a fragment Qual(C) rendered with the File, reference to fmt / C / a path sorting before C, File.Render, preamble} followed by the final render. Oracle on the parsed output: exactly one spec with path \"C\", without a name; every reference built with \"C\" is C.sym; with a preamble the spec is alone in its declaration, its doc comment consists of the preamble blocks' text in order, there is no blank line between doc and import, and all other specs come in an earlier declaration; without a preamble it has no doc; plus C04's exactness and C03's type check (FakeImportC). " +
			"distinct_nontrivial = distinct outputs importing \"C\" together with a preamble or another import"
		r.Assume = []string{"comment text is compared line-wise, trimmed (gofmt may re-indent block comments)", "histories beyond the depth / deviation bounds are outside the bound"}
		c19Check.run(r)
		c19Histories(r)
	}, Replay: c19Check.replay})
}

// c19Histories: short histories that include renders (File.Render and a fragment Qual("C", ..)
// rendered with the File) before the final render.
func c19Histories(r *ev.Recorder) {
	type op struct {
		name string
		do   func(w *imp.World, st *c19State)
	}
	ops := []op{
		{"Anon(C)", func(w *imp.World, st *c19State) { w.AnonImport("C") }},
		{"Qual(C).RenderWithFile(file)", func(w *imp.World, st *c19State) {
			jen.Qual("C", "frag").Call().RenderWithFile(io.Discard, w.F)
			st.fragOnly = true
			w.Log = append(w.Log, "Qual(C,frag).RenderWithFile(file)")
		}},
		{"Ref(fmt)", func(w *imp.World, st *c19State) { w.Ref("fmt", 0) }},
		{"Ref(C)", func(w *imp.World, st *c19State) { w.Ref("C", 0) }},
		{"File.Render", func(w *imp.World, st *c19State) { w.Render(); w.Log = append(w.Log, "File.Render") }},
		{"CgoPreamble", func(w *imp.World, st *c19State) { w.CgoPreamble("#include <a.h>") }},
		{"Ref(9fans.net/go)", func(w *imp.World, st *c19State) { w.Ref("9fans.net/go", 0) }},
	}
	n := len(ops)
	hlen := 5
	if r.Tier == ev.Thorough {
		hlen = 6
	}
	total := 1
	for l := 0; l < hlen; l++ {
		total *= n
	}
	for code := 0; code < total && !r.Expired(); code++ {
		w := imp.New("NewFile", "", imp.DefaultTrueName(nil))
		st := &c19State{}
		c := code
		for i := 0; i < hlen; i++ {
			ops[c%n].do(w, st)
			c /= n
		}
		if st.fragOnly && !imp.ExpectedPaths(w)["C"] {
			continue // C seen only by a fragment render: whether the File must import it is C08's subject
		}
		r.Eval(1)
		a, msg := renderAnalyze(w)
		var probs []string
		if a == nil {
			probs = []string{msg}
		} else {
			probs = imp.CheckCgo(a, w)
			if !st.fragOnly {
				probs = append(probs, imp.CheckExact(a, w)...)
			}
			r.Distinct(a.Src)
		}
		if len(probs) > 0 {
			r.Violate(ev.Violation{Signature: "c19:history:" + problemKind(probs[0]), What: fmt.Sprintf("%v: %s", w.Log, probs[0]), Case: ev.JSON(impCase{Ops: w.Log}), Detail: strings.Join(probs, "\n")})
		}
	}
}

type c19State struct{ fragOnly bool }
