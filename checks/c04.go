package checks

import (
	"fmt"
	"strings"

	"github.com/dave/jennifer/jen"
	"verif/internal/ev"
	"verif/internal/imp"
)

// C04: the import block is exact - used paths and anonymous imports, nothing else.

var allWrappers = func() []int {
	var out []int
	for i := range imp.Wrappers {
		out = append(out, i)
	}
	return out
}()

var c04BigHints = []string{"u/h1", "u/h2", "u/h3", "u/h4", "u/h5", "u/h6", "u/h7", "u/h8", "u/h9", "u/h10", "a/f", "fmt"}

func c04Names() map[string]string {
	m := map[string]string{"a/f": "f", "b/f": "f", "x/dot": "dot"}
	for _, p := range c04BigHints {
		if _, ok := m[p]; !ok && p != "fmt" {
			m[p] = "h"
		}
	}
	return m
}

var c04Check = &impCheck{
	id: "C04",
	judge: func(a *imp.Analysis, w *imp.World) []string {
		return append(imp.CheckExact(a, w), imp.CheckResolve(a, w)...)
	},
	nontrivial: func(a *imp.Analysis, w *imp.World) bool {
		// some reference or hint that must NOT produce an import, next to one that must
		for _, r := range w.Refs {
			if !r.Rendered {
				return len(a.Specs) > 0
			}
		}
		return len(a.Specs) > 0 && len(w.Log) > len(w.Refs)+1
	},
	sys: newRawSystem("NewFilePath", "l/loc", []string{"a/f", "b/f", "fmt", "l/loc"}, map[string]string{"a/f": "f", "b/f": "f"}, []string{".", "_"},
		[]int{0, imp.WrapperIndex("dictkey-nullvalue"), imp.WrapperIndex("dictvalue-nullkey"), imp.WrapperIndex("dictvalue")}, true, "pkg"),
	bfsDepth: [2]int{4, 5},
	dev:      [2]int{3, 4},
	fams: []*family{
		{name: "wrappers", ctors: []string{"NewFile"}, paths: []string{"a/f", "b/f", "fmt", "x/dot", "app/vendor/a/f", "s/lash/"}, names: c04Names(), canon: []string{"a/f", "x/other"},
			aliases: []string{"f", ".", "_"}, prefixes: []string{"pkg"}, maxRefs: 3, freeRefs: 2, wrappers: allWrappers, anon: true, extra: true, bigHints: c04BigHints, oneDict: true},
		{name: "local", ctors: []string{"NewFilePath", "NewFilePathName"}, local: "a.b/c", paths: []string{"a.b/c", "a.b/c/x", "fmt", "a.b/c/"}, names: map[string]string{"a.b/c/x": "x"}, canon: []string{"a.b/c/x", "a.b/c"},
			aliases: []string{"."}, prefixes: []string{"pkg"}, maxRefs: 3, freeRefs: 3, wrappers: allWrappers, anon: true, extra: true},
		{name: "testpath", ctors: []string{"NewFilePath", "NewFilePathName"}, local: "a.b/c_test", paths: []string{"a.b/c_test", "a.b/c", "fmt"}, names: map[string]string{"a.b/c": "c"},
			aliases: []string{"."}, prefixes: []string{"pkg"}, maxRefs: 3, freeRefs: 3, wrappers: []int{0, imp.WrapperIndex("dictvalue")}, anon: true, extra: true},
		{name: "cgo", ctors: []string{"NewFile"}, paths: []string{"C", "fmt", "a/c"}, names: map[string]string{"a/c": "c"},
			aliases: []string{"c"}, prefixes: []string{"pkg"}, maxRefs: 3, freeRefs: 3, wrappers: []int{0, imp.WrapperIndex("dictkey-nullvalue")}, anon: true, extra: true,
			preambleOpts: [][]string{nil, {"#include <a.h>"}, {"#include <a.h>", "int x;\nint y;"}}},
	},
}

// c04EmptyBodies: Files whose body renders nothing (or only a comment / a blank line / one
// declaration) with every subset of {Anon(a/f), Anon(fmt), a cgo preamble, a hint for an unused
// path}: the anonymous imports (and "C") must be there, nothing else.
func c04EmptyBodies(r *ev.Recorder) {
	bodies := []struct {
		name string
		add  func(w *imp.World)
	}{
		{"no item", func(w *imp.World) {}},
		{"Null()", func(w *imp.World) { w.F.Add(jen.Null()) }},
		{"nil and an empty statement", func(w *imp.World) { w.F.Add(nil, &jen.Statement{}) }},
		{"Line()", func(w *imp.World) { w.F.Line() }},
		{"a comment", func(w *imp.World) { w.F.Comment("nothing here") }},
		{"an empty Do", func(w *imp.World) { w.F.Do(func(*jen.Statement) {}) }},
		{"one declaration", func(w *imp.World) { w.F.Var().Id("x").Op("=").Lit(1) }},
		{"a Dict with only null pairs", func(w *imp.World) { w.F.Add(jen.Dict{jen.Null(): jen.Qual("u/unused", "X")}) }},
	}
	imp.Bare = true
	defer func() { imp.Bare = false }()
	for bi, b := range bodies {
		for mask := 0; mask < 16; mask++ {
			for _, ctor := range []string{"NewFile", "NewFilePathName"} {
				w := imp.New(ctor, "l/loc", imp.DefaultTrueName(map[string]string{"a/f": "f", "u/unused": "unused"}))
				if mask&1 != 0 {
					w.AnonImport("a/f")
				}
				if mask&2 != 0 {
					w.AnonImport("fmt")
				}
				if mask&4 != 0 {
					w.CgoPreamble("#include <a.h>")
				}
				if mask&8 != 0 {
					w.Name("u/unused")
				}
				b.add(w)
				w.Log = append(w.Log, "body: "+b.name)
				r.Eval(1)
				a, msg := renderAnalyze(w)
				var probs []string
				if a == nil {
					probs = []string{msg}
				} else {
					probs = imp.CheckExact(a, w)
					if mask&7 != 0 {
						r.Distinct(fmt.Sprint(bi, mask, ctor))
					}
				}
				if len(probs) > 0 {
					r.Violate(ev.Violation{Signature: "c04:empty-body:" + problemKind(probs[0]), What: fmt.Sprintf("%v: %s", w.Log, probs[0]), Case: ev.JSON(impCase{Ops: w.Log}), Detail: strings.Join(probs, "\n")})
				}
			}
		}
	}
}

func init() {
	register(&Check{ID: "C04", Level: "model_checking", Run: func(r *ev.Recorder) {
		r.Rule = "(1) explicit-state BFS over one real File (constructor NewFilePath): references to 4 paths (one of them the local path) in 4 positions (plain, Dict key whose value is Null(), Dict value whose key is Null(), Dict value), " +
			"ImportName, ImportAlias(p, \".\"), ImportAlias(p, \"_\"), Anon, PackagePrefix, in every order up to the depth bound, de-duplicated on a reflection dump of the File. " +
			"(2) canonical pre-render histories for 3 path families (all 14 reference positions incl. three that must render nothing; hint tables of 12 mostly unused paths; anonymous imports; local path; a vendored copy of a referenced path; CanonicalPath set to a referenced path; cgo with 0-2 preamble blocks) with a bounded number of non-default settings. " +
			"Oracle on the parsed output: the multiset of import specs equals {paths of rendered references (except the local path)} + {anonymous imports} (+ \"C\" when a preamble exists), each exactly once; cross-checked by go/types (no 'imported and not used', no undefined). " +
			"(3) Files without code: 8 bodies that render nothing or next to nothing x every subset of {Anon(a/f), Anon(fmt), cgo preamble, a name hint for an unused path} x 2 constructors. distinct_nontrivial = distinct outputs of files that contain a reference or hint that must not produce an import"
		r.Assume = []string{"Anon on a path that is also referenced is counted once (the reference wins)", "histories beyond the depth / deviation bounds are outside the bound"}
		c04Check.run(r)
		c04EmptyBodies(r)
	}, Replay: c04Check.replay})
}
