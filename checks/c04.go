package checks

import (
	"verif/internal/ev"
	"verif/internal/imp"
)

// C04: the import block is exact - used paths and anonymous imports, nothing else.

var allWrappers = func() []int {
	var out []int
	for i := range imp.Wrappers {
		out = append(out, i)
	}
	return out
}()

var c04BigHints = []string{"u/h1", "u/h2", "u/h3", "u/h4", "u/h5", "u/h6", "u/h7", "u/h8", "u/h9", "u/h10", "a/f", "fmt"}

func c04Names() map[string]string {
	m := map[string]string{"a/f": "f", "b/f": "f", "x/dot": "dot"}
	for _, p := range c04BigHints {
		if _, ok := m[p]; !ok && p != "fmt" {
			m[p] = "h"
		}
	}
	return m
}

var c04Check = &impCheck{
	id: "C04",
	judge: func(a *imp.Analysis, w *imp.World) []string {
		return append(imp.CheckExact(a, w), imp.CheckResolve(a, w)...)
	},
	nontrivial: func(a *imp.Analysis, w *imp.World) bool {
		// some reference or hint that must NOT produce an import, next to one that must
		for _, r := range w.Refs {
			if !r.Rendered {
				return len(a.Specs) > 0
			}
		}
		return len(a.Specs) > 0 && len(w.Log) > len(w.Refs)+1
	},
	sys: newRawSystem("NewFilePath", "l/loc", []string{"a/f", "b/f", "fmt", "l/loc"}, map[string]string{"a/f": "f", "b/f": "f"}, []string{".", "_"},
		[]int{0, imp.WrapperIndex("dictkey-nullvalue"), imp.WrapperIndex("dictvalue-nullkey"), imp.WrapperIndex("dictvalue")}, true, "pkg"),
	bfsDepth: [2]int{4, 5},
	dev:      [2]int{3, 4},
	fams: []*family{
		{name: "wrappers", ctors: []string{"NewFile"}, paths: []string{"a/f", "b/f", "fmt", "x/dot", "app/vendor/a/f"}, names: c04Names(), canon: []string{"a/f", "x/other"},
			aliases: []string{"f", ".", "_"}, prefixes: []string{"pkg"}, maxRefs: 3, freeRefs: 2, wrappers: allWrappers, anon: true, extra: true, bigHints: c04BigHints},
		{name: "local", ctors: []string{"NewFilePath", "NewFilePathName"}, local: "a.b/c", paths: []string{"a.b/c", "a.b/c/x", "fmt"}, names: map[string]string{"a.b/c/x": "x"}, canon: []string{"a.b/c/x", "a.b/c"},
			aliases: []string{"."}, prefixes: []string{"pkg"}, maxRefs: 3, freeRefs: 3, wrappers: allWrappers, anon: true, extra: true},
		{name: "cgo", ctors: []string{"NewFile"}, paths: []string{"C", "fmt", "a/c"}, names: map[string]string{"a/c": "c"},
			aliases: []string{"c"}, prefixes: []string{"pkg"}, maxRefs: 3, freeRefs: 3, wrappers: []int{0, imp.WrapperIndex("dictkey-nullvalue")}, anon: true, extra: true,
			preambleOpts: [][]string{nil, {"#include <a.h>"}, {"#include <a.h>", "int x;\nint y;"}}},
	},
}

func init() {
	register(&Check{ID: "C04", Level: "model_checking", Run: func(r *ev.Recorder) {
		r.Rule = "(1) explicit-state BFS over one real File (constructor NewFilePath): references to 4 paths (one of them the local path) in 4 positions (plain, Dict key whose value is Null(), Dict value whose key is Null(), Dict value), " +
			"ImportName, ImportAlias(p, \".\"), ImportAlias(p, \"_\"), Anon, PackagePrefix, in every order up to the depth bound, de-duplicated on a reflection dump of the File. " +
			"(2) canonical pre-render histories for 3 path families (all 14 reference positions incl. three that must render nothing; hint tables of 12 mostly unused paths; anonymous imports; local path; a vendored copy of a referenced path; CanonicalPath set to a referenced path; cgo with 0-2 preamble blocks) with a bounded number of non-default settings. " +
			"Oracle on the parsed output: the multiset of import specs equals {paths of rendered references (except the local path)} + {anonymous imports} (+ \"C\" when a preamble exists), each exactly once; cross-checked by go/types (no 'imported and not used', no undefined). " +
			"distinct_nontrivial = distinct outputs of files that contain a reference or hint that must not produce an import"
		r.Assume = []string{"Anon on a path that is also referenced is counted once (the reference wins)", "histories beyond the depth / deviation bounds are outside the bound"}
		c04Check.run(r)
	}, Replay: c04Check.replay})
}
