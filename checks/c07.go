package checks

import (
	"bytes"
	"crypto/sha256"
	"encoding/hex"
	"encoding/json"
	"fmt"
	"math"
	"os"
	"sort"
	"strings"
	"sync"
	"time"

	"github.com/dave/jennifer/jen"

	"verif/internal/env"
	"verif/internal/ev"
	"verif/internal/explore"
	"verif/internal/jh"
)

// C07: output is deterministic - same construction, same bytes, under EVERY map iteration
// order. Needs the instrumented build (E4): every dynamic execution of a `range` over a map in
// jennifer asks the controller for the order.

func init() {
	register(&Check{ID: "C07", Level: "model_checking", Variant: "instr", Run: runC07, Replay: replayC07})
}

type c07Recipe struct {
	name  string
	build func(k func(jen.Code) jen.Code) jh.Outcome
}

// c07ForceNoFormat makes every recipe File render raw (used by C02's twin comparison; recipes run
// sequentially under environment control, so a package variable is safe).
var c07ForceNoFormat bool

func c07File(noFormat bool, body func(f *jen.File)) jh.Outcome {
	f := jen.NewFile("p")
	f.NoFormat = noFormat || c07ForceNoFormat
	body(f)
	return jh.RenderFile(f)
}

var c07Recipes = []c07Recipe{
	{"dict-qual-keys-colliding", func(k func(jen.Code) jen.Code) jh.Outcome {
		return c07File(false, func(f *jen.File) {
			f.Var().Id("x").Op("=").Map(jen.Int()).Int().Values(jen.Dict{
				k(jen.Qual("a/f", "X")): jen.Lit(1), k(jen.Qual("b/f", "X")): jen.Lit(2), k(jen.Qual("c/f", "X")): jen.Lit(3)})
		})
	}},
	{"dict-qual-keys-anonymous-before", func(k func(jen.Code) jen.Code) jh.Outcome {
		return c07File(false, func(f *jen.File) {
			f.Anon("a/f", "b/f", "d/f")
			f.Var().Id("x").Op("=").Map(jen.Int()).Int().Values(jen.Dict{
				k(jen.Qual("a/f", "X")): jen.Lit(1), k(jen.Qual("b/f", "X")): jen.Lit(1), k(jen.Qual("c/f", "X")): jen.Qual("d/f", "V")})
		})
	}},
	{"dict-qual-values-colliding", func(k func(jen.Code) jen.Code) jh.Outcome {
		return c07File(false, func(f *jen.File) {
			f.Var().Id("x").Op("=").Map(jen.Int()).Int().Values(jen.Dict{
				k(jen.Lit(3)): jen.Qual("a/f", "X"), k(jen.Lit(2)): jen.Qual("b/f", "X"), k(jen.Lit(1)): jen.Qual("c/f", "X")})
		})
	}},
	{"dict-mixed-qual-expressions", func(k func(jen.Code) jen.Code) jh.Outcome {
		return c07File(false, func(f *jen.File) {
			f.Var().Id("x").Op("=").Map(jen.Int()).Int().Values(jen.Dict{
				k(jen.Qual("c/f", "X").Op("+").Qual("a/f", "Y")): jen.Qual("d/f", "V"),
				k(jen.Qual("a/f", "X").Op("+").Qual("c/f", "Y")): jen.Qual("e/f", "V"),
				k(jen.Qual("b/f", "X")):                          jen.Lit(1),
				k(jen.Id("f").Dot("X")):                          jen.Lit(2)})
		})
	}},
	{"dict-equal-key-text", func(k func(jen.Code) jen.Code) jh.Outcome {
		return c07File(false, func(f *jen.File) {
			f.Var().Id("x").Op("=").Map(jen.Int()).Int().Values(jen.Dict{
				k(jen.Id("f").Call()): jen.Lit(4), k(jen.Id("f").Call()): jen.Lit(5), k(jen.Id("f").Call()): jen.Qual("a/f", "X"), k(jen.Id("g").Call()): jen.Qual("b/f", "X")})
		})
	}},
	{"dict-equal-key-and-value-text", func(k func(jen.Code) jen.Code) jh.Outcome {
		return c07File(false, func(f *jen.File) {
			f.Var().Id("x").Op("=").Map(jen.Int()).Int().Values(jen.Dict{
				k(jen.Qual("a/f", "X")): jen.Lit(1), k(jen.Qual("b/f", "X")): jen.Lit(1), k(jen.Id("f").Dot("X")): jen.Lit(1)})
		})
	}},
	{"dict-null-pairs", func(k func(jen.Code) jen.Code) jh.Outcome {
		return c07File(false, func(f *jen.File) {
			f.Var().Id("x").Op("=").Map(jen.Int()).Int().Values(jen.Dict{
				k(jen.Qual("a/f", "X")): jen.Null(), k(jen.Null()): jen.Qual("b/f", "X"), k(jen.Qual("c/f", "X")): jen.Lit(1), k(jen.Qual("d/f", "X")): jen.Lit(2)})
		})
	}},
	{"dict-nested", func(k func(jen.Code) jen.Code) jh.Outcome {
		return c07File(false, func(f *jen.File) {
			inner := jen.Dict{k(jen.Qual("a/f", "K")): jen.Qual("b/f", "V"), k(jen.Qual("b/f", "K")): jen.Qual("a/f", "V")}
			f.Var().Id("x").Op("=").Id("T").Values(jen.Dict{
				k(jen.Id("A")): jen.Id("U").Values(inner), k(jen.Id("B")): jen.Qual("c/f", "W"), k(jen.Id("C")): jen.Qual("a/g", "W")})
		})
	}},
	{"dict-of-dicts-quals-only-nested", func(k func(jen.Code) jen.Code) jh.Outcome {
		return c07File(false, func(f *jen.File) {
			row := func(p string) jen.Code {
				return jen.Values(jen.Dict{k(jen.Id("A")): jen.Qual(p, "V"), k(jen.Id("B")): jen.Lit(1)})
			}
			f.Var().Id("x").Op("=").Map(jen.String()).Id("T").Values(jen.Dict{
				k(jen.Lit("r1")): row("a/f"), k(jen.Lit("r2")): row("b/f"), k(jen.Lit("r3")): row("c/f"), k(jen.Lit("r4")): row("d/f")})
		})
	}},
	{"dict-with-dict-keys", func(k func(jen.Code) jen.Code) jh.Outcome {
		return c07File(false, func(f *jen.File) {
			key := func(p, q string) jen.Code {
				return k(jen.Id("K").Values(jen.Dict{k(jen.Id("A")): jen.Qual(p, "P"), k(jen.Id("B")): jen.Qual(q, "Q")}))
			}
			f.Var().Id("x").Op("=").Map(jen.Id("K")).String().Values(jen.Dict{
				key("a/f", "b/f"): jen.Lit("one"), k(jen.Id("K").Values(jen.Dict{k(jen.Id("A")): jen.Id("f0"), k(jen.Id("B")): jen.Qual("b/f", "R")})): jen.Lit("two")})
		})
	}},
	{"trailing-slash-path-1", func(k func(jen.Code) jen.Code) jh.Outcome {
		return c07File(false, func(f *jen.File) { f.Var().Id("_").Op("=").List(jen.Qual("x/first/", "A"), jen.Qual("x/9", "B")) })
	}},
	{"trailing-slash-path-2", func(k func(jen.Code) jen.Code) jh.Outcome {
		return c07File(false, func(f *jen.File) { f.Var().Id("_").Op("=").List(jen.Qual("y/second/", "A"), jen.Qual("y/7", "B")) })
	}},
	{"dict-equal-keys-long-values", func(k func(jen.Code) jen.Code) jh.Outcome {
		return c07File(false, func(f *jen.File) {
			long := strings.Repeat("0123456789", 60)
			f.Var().Id("x").Op("=").Map(jen.Int()).String().Values(jen.Dict{
				k(jen.Id("next").Call()): jen.Lit(long + "a"), k(jen.Id("next").Call()): jen.Lit(long + "b"), k(jen.Id("first").Call()): jen.Lit("c")})
		})
	}},
	{"dict-fragment-statement-render", func(k func(jen.Code) jen.Code) jh.Outcome {
		return jh.Catch(func() (string, error) {
			s := jen.Id("T").Values(jen.Dict{k(jen.Qual("a/f", "X")): jen.Lit(1), k(jen.Qual("b/f", "X")): jen.Lit(2), k(jen.Qual("c/f", "X")): jen.Lit(3)})
			var b bytes.Buffer
			err := s.Render(&b)
			return b.String(), err
		})
	}},
	{"tag-4-keys", func(k func(jen.Code) jen.Code) jh.Outcome {
		return c07File(false, func(f *jen.File) {
			f.Type().Id("T").Struct(jen.Id("A").Int().Tag(map[string]string{"json": "a", "xml": "b", "db": "c", "db2": "d"}), jen.Id("B").Int().Tag(map[string]string{"b": "1", "a": "2"}))
		})
	}},
	{"tag-keys-differing-in-case-width-and-digits", func(k func(jen.Code) jen.Code) jh.Outcome {
		return c07File(false, func(f *jen.File) {
			f.Type().Id("T").Struct(jen.Id("A").Int().Tag(map[string]string{"db": "a", "DB": "b", "Db": "c", "db2": "d"}), jen.Id("B").Int().Tag(map[string]string{"k": "1", "K": "2", "k_": "3"}))
		})
	}},
	{"importnames-sibling-major-versions", func(k func(jen.Code) jen.Code) jh.Outcome {
		return c07File(false, func(f *jen.File) {
			f.ImportNames(map[string]string{"x.y/render": "render", "x.y/render/v2": "renderer", "x.y/render.v4": "rndr", "x.y/Render/v5": "big"})
			f.Var().Id("_").Op("=").List(jen.Qual("x.y/render/v3", "X"), jen.Qual("x.y/render.v6", "X"), jen.Qual("x.y/render/v2", "X"), jen.Qual("x.y/render/v3/sub", "X"))
		})
	}},
	{"dict-integer-and-expression-keys", func(k func(jen.Code) jen.Code) jh.Outcome {
		return c07File(false, func(f *jen.File) {
			f.Var().Id("x").Op("=").Map(jen.Int()).String().Values(jen.Dict{
				k(jen.Lit(9)): jen.Lit("a"), k(jen.Lit(10)): jen.Lit("b"), k(jen.Lit(2).Op("*").Id("factor")): jen.Lit("c"), k(jen.Lit(100)): jen.Lit("d"), k(jen.Id("n")): jen.Lit("e")})
		})
	}},
	// numeric literals that compare equal but are written differently: what one recipe renders
	// must not depend on the other having been rendered before (the history pass runs both orders)
	{"zero-literals", func(k func(jen.Code) jen.Code) jh.Outcome {
		return c07File(false, func(f *jen.File) {
			f.Var().Id("_").Op("=").Index().Any().Values(jen.Lit(0.0), jen.Lit(float32(0)), jen.Lit(complex(0, 0)), jen.Lit(complex64(0)), jen.Lit(1.0), jen.Lit(int8(1)))
		})
	}},
	{"negative-zero-literals", func(k func(jen.Code) jen.Code) jh.Outcome {
		return c07File(false, func(f *jen.File) {
			nz := math.Copysign(0, -1)
			f.Var().Id("_").Op("=").Index().Any().Values(jen.Lit(nz), jen.Lit(float32(nz)), jen.Lit(complex(nz, nz)), jen.Lit(complex64(complex(nz, 0))), jen.Lit(1), jen.Lit(uint8(1)))
		})
	}},
	{"importnames-4", func(k func(jen.Code) jen.Code) jh.Outcome {
		return c07File(false, func(f *jen.File) {
			f.ImportNames(map[string]string{"a/f": "f", "b/f": "f", "c/g": "g", "d/h": "h"})
			f.Var().Id("_").Op("=").List(jen.Qual("b/f", "X"), jen.Qual("a/f", "X"), jen.Qual("c/g", "X"), jen.Qual("x/f", "X"))
		})
	}},
	{"importnames-vendored-copies", func(k func(jen.Code) jen.Code) jh.Outcome {
		return c07File(false, func(f *jen.File) {
			f.ImportNames(map[string]string{"github.com/pkg/log": "log", "a/vendor/github.com/pkg/log": "logger", "b/vendor/github.com/pkg/log": "vlog", "github.com/pkg/Log": "biglog"})
			f.Var().Id("_").Op("=").List(jen.Qual("github.com/pkg/log", "X"), jen.Qual("a/vendor/github.com/pkg/log", "X"), jen.Qual("b/vendor/github.com/pkg/log", "X"), jen.Qual("github.com/pkg/Log", "X"))
		})
	}},
	{"fragment-group-with-colliding-names", func(k func(jen.Code) jen.Code) jh.Outcome {
		return jh.Catch(func() (string, error) {
			s := jen.Qual("a/f", "X").Call(jen.Qual("b/f", "Y"), jen.Lit("s"))
			return s.GoString(), nil
		})
	}},
	{"imports-5-mixed", func(k func(jen.Code) jen.Code) jh.Outcome {
		return c07File(false, func(f *jen.File) {
			f.Anon("z/anon", "a/anon")
			f.ImportAlias("x/y", "q")
			f.Var().Id("_").Op("=").List(jen.Qual("fmt", "X"), jen.Qual("x/y", "X"), jen.Qual("C", "X"), jen.Qual("b/f", "X"), jen.Qual("a/f", "X"))
		})
	}},
	{"imports-noformat", func(k func(jen.Code) jen.Code) jh.Outcome {
		return c07File(true, func(f *jen.File) {
			f.Anon("z/anon")
			f.Var().Id("_").Op("=").List(jen.Qual("os", "X"), jen.Qual("b/f", "X"), jen.Qual("a/f", "X"), jen.Qual("fmt", "X"))
		})
	}},
	{"imports-cgo-preamble", func(k func(jen.Code) jen.Code) jh.Outcome {
		return c07File(false, func(f *jen.File) {
			f.CgoPreamble("#include <a.h>")
			f.Anon("z/anon")
			f.Var().Id("_").Op("=").List(jen.Qual("os", "X"), jen.Qual("C", "X"), jen.Qual("a/f", "X"))
		})
	}},
	{"prefix-collisions", func(k func(jen.Code) jen.Code) jh.Outcome {
		return c07File(false, func(f *jen.File) {
			f.PackagePrefix = "pkg"
			f.Var().Id("x").Op("=").Map(jen.Int()).Int().Values(jen.Dict{
				k(jen.Qual("a/f", "X")): jen.Qual("x/f1", "V"), k(jen.Qual("b/f", "X")): jen.Qual("y/f1", "V")})
			f.Var().Id("_").Op("=").Qual("c/f", "X")
		})
	}},
	{"dict-of-tags-with-colliding-imports", func(k func(jen.Code) jen.Code) jh.Outcome {
		return c07File(false, func(f *jen.File) {
			f.Var().Id("x").Op("=").Map(jen.String()).Id("any").Values(jen.Dict{
				k(jen.Lit("a")): jen.Struct(jen.Id("F").Qual("a/f", "T").Tag(map[string]string{"json": "f", "db": "g"})).Values(),
				k(jen.Lit("b")): jen.Struct(jen.Id("F").Qual("b/f", "T").Tag(map[string]string{"yaml": "f", "db": "g"})).Values()})
		})
	}},
	{"two-dicts-same-file", func(k func(jen.Code) jen.Code) jh.Outcome {
		return c07File(false, func(f *jen.File) {
			f.Var().Id("x").Op("=").Id("T").Values(jen.Dict{k(jen.Qual("a/f", "X")): jen.Lit(1), k(jen.Qual("b/f", "X")): jen.Lit(2)})
			f.Var().Id("y").Op("=").Id("T").Values(jen.Dict{k(jen.Qual("c/f", "X")): jen.Lit(1), k(jen.Qual("b/f", "Y")): jen.Lit(2), k(jen.Qual("d/f", "Y")): jen.Lit(2)})
		})
	}},
}

func c07Perms(n int) (perms [][]int, complete bool) {
	if n <= 4 {
		return explore.Perms(n), true
	}
	id := make([]int, n)
	rev := make([]int, n)
	for i := range id {
		id[i] = i
		rev[i] = n - 1 - i
	}
	perms = append(perms, id, rev)
	for r := 1; r < n; r++ {
		p := make([]int, n)
		for i := range p {
			p[i] = (i + r) % n
		}
		perms = append(perms, p)
	}
	return perms, false
}

// c07Run executes a recipe under an order function on the calling goroutine.
func c07Run(rc c07Recipe, order env.OrderFunc) (jh.Outcome, *env.Controller) {
	ctl := env.NewController(order)
	remove := env.Install(ctl)
	defer remove()
	return rc.build(func(c jen.Code) jen.Code { ctl.Key(c); return c }), ctl
}

type c07Case struct {
	Recipe string `json:"recipe"`
	Vector []int  `json:"vector,omitempty"`
	Policy string `json:"policy,omitempty"`
}

func c07Policy(name string) env.OrderFunc {
	switch {
	case name == "reverse":
		return func(site string, n int) []int {
			p := make([]int, n)
			for i := range p {
				p[i] = n - 1 - i
			}
			return p
		}
	case strings.HasPrefix(name, "rotate"):
		var r int
		fmt.Sscanf(name, "rotate%d", &r)
		return func(site string, n int) []int {
			p := make([]int, n)
			for i := range p {
				p[i] = (i + r) % n
			}
			return p
		}
	}
	return nil
}

func c07Hash(o jh.Outcome) string {
	h := sha256.Sum256([]byte(o.Key()))
	return hex.EncodeToString(h[:8])
}

// C07Native is the body of the `native` subcommand: run a recipe with no controller (the
// runtime's own map order) and print the hash of its output.
func C07Native(recipe string) {
	for _, rc := range c07Recipes {
		if rc.name == recipe {
			fmt.Println(c07Hash(rc.build(func(c jen.Code) jen.Code { return c })))
			return
		}
	}
	fmt.Println("unknown recipe")
	os.Exit(2)
}

// c07Result is what exploring one recipe yields (also the JSON a shard process prints).
type c07Result struct {
	Recipe       string             `json:"recipe"`
	Executions   int64              `json:"executions"`
	Deviating    int64              `json:"deviating_executions"`
	PerLevel     []int64            `json:"per_level"`
	Complete     bool               `json:"complete"`
	Outcomes     map[string]c07Case `json:"outcomes"`
	Outputs      map[string]string  `json:"outputs"`
	Canonical    string             `json:"canonical_hash"`
	Sites        map[string]int     `json:"sites"`
	RangeExecs   int64              `json:"range_executions"`
	Incomplete   bool               `json:"maps_over_4"`
	Uncontrolled map[string]int     `json:"uncontrolled"`
}

// c07Explore explores every environment schedule of one recipe within the deviation bound,
// sequentially on the calling goroutine.
func c07Explore(rc c07Recipe, dev int, stop func() bool) c07Result {
	res := c07Result{Recipe: rc.name, Outcomes: map[string]c07Case{}, Outputs: map[string]string{}, Sites: map[string]int{}}
	canonical, _ := c07Run(rc, nil)
	res.Canonical = c07Hash(canonical)
	note := func(o jh.Outcome, c c07Case) {
		h := c07Hash(o)
		if _, ok := res.Outcomes[h]; !ok {
			res.Outcomes[h] = c
			res.Outputs[h] = o.String()
		}
	}
	note(canonical, c07Case{Recipe: rc.name})
	st := explore.Explore(explore.Options{MaxDev: dev, Workers: 1, Stop: stop}, func(c *explore.Ctx) {
		o, ctl := c07Run(rc, func(site string, n int) []int {
			perms, complete := c07Perms(n)
			if !complete {
				res.Incomplete = true
			}
			return perms[c.Choose(len(perms))]
		})
		if c.Devs > 0 {
			res.Deviating++
		}
		for s, n := range ctl.Sites {
			res.Sites[s] += n
			res.RangeExecs += int64(n)
		}
		note(o, c07Case{Recipe: rc.name, Vector: c.Vector()})
	})
	res.Executions, res.PerLevel, res.Complete = st.Executions, st.PerLevel, st.Complete
	for _, pol := range []string{"reverse", "rotate1", "rotate2", "rotate3"} {
		o, _ := c07Run(rc, c07Policy(pol))
		res.Executions++
		note(o, c07Case{Recipe: rc.name, Policy: pol})
	}
	for i := 0; i < 3; i++ {
		o := rc.build(func(c jen.Code) jen.Code { return c })
		res.Executions++
		note(o, c07Case{Recipe: rc.name, Policy: "native"})
	}
	res.Uncontrolled = env.UncontrolledSites()
	return res
}

// C07Shard is the body of the `c07shard` subcommand (one worker process per recipe).
func C07Shard(recipe string, dev int) {
	for _, rc := range c07Recipes {
		if rc.name == recipe {
			deadline := time.Now().Add(35 * time.Minute)
			res := c07Explore(rc, dev, func() bool { return time.Now().After(deadline) })
			json.NewEncoder(os.Stdout).Encode(res)
			return
		}
	}
	os.Exit(2)
}

func runC07(r *ev.Recorder) {
	if !env.Instrumented {
		fmt.Fprintln(os.Stderr, "C07 needs the instrumented build (run it through run.sh)")
		os.Exit(2)
	}
	dev := 2
	if r.Tier == ev.Thorough {
		dev = 3
		r.SetDeadline(40 * 60 * 1e9)
	} else {
		r.SetDeadline(5 * 60 * 1e9)
	}
	r.Rule = fmt.Sprintf("%d recipes (fresh objects per execution: Dicts with colliding / equal-text / null keys and values, nested Dicts, Tags, ImportNames tables, import sets with anon/aliased/std/cgo entries, NoFormat, prefix, fragments). "+
		"The instrumenter rewrote every `range` over a map in the current jennifer sources; at every DYNAMIC execution of such a range the explorer chooses the iteration order: all n! permutations (n <= 4; identity, reverse and rotations above), "+
		"with at most %d range executions deviating from canonical order per run, plus uniform runs (every range reversed; rotated by 1..3) and runs under the runtime's native order (in-process and in 2 fresh processes). "+
		"plus a history pass in the parent process (every recipe again, forwards and backwards, between failing and succeeding renders of other Files and fragments with the same base names). Oracle: exactly one distinct outcome (bytes or error) per recipe. states = executions (one per environment schedule), transitions = dynamic range executions answered; distinct_nontrivial = executions with at least one deviating range (each has a distinct order vector by construction of the explorer)", len(c07Recipes), dev)
	r.Assume = []string{"the Go specification leaves map iteration order unspecified, so every permutation is a legitimate runtime behaviour",
		"keys of maps are ranked canonically by string value, or for Code keys by creation order in the recipe",
		"maps with more than 4 entries get identity, reverse and rotations only"}
	self := os.Getenv("VERIF_SELF")
	results := make([]c07Result, len(c07Recipes))
	if self == "" {
		for i, rc := range c07Recipes {
			results[i] = c07Explore(rc, dev, r.Expired)
		}
	} else {
		r.External(func() {
			var wg sync.WaitGroup
			sem := make(chan struct{}, 16)
			for i, rc := range c07Recipes {
				i, rc := i, rc
				wg.Add(1)
				go func() {
					defer wg.Done()
					sem <- struct{}{}
					defer func() { <-sem }()
					out, err := shardCommand(self, "c07shard", rc.name, fmt.Sprint(dev)).Output()
					if err != nil || json.Unmarshal(out, &results[i]) != nil {
						fmt.Fprintf(os.Stderr, "C07: shard %s failed: %v\n%s\n", rc.name, err, out)
						os.Exit(2)
					}
					for k := 0; k < 2; k++ {
						h, err := shardCommand(self, "native", rc.name).Output()
						if err != nil {
							fmt.Fprintln(os.Stderr, "C07: native child failed:", err)
							os.Exit(2)
						}
						hs := strings.TrimSpace(string(h))
						results[i].Executions++
						if _, ok := results[i].Outcomes[hs]; !ok {
							results[i].Outcomes[hs] = c07Case{Recipe: rc.name, Policy: "native-process"}
							results[i].Outputs[hs] = "(output of a fresh process, hash " + hs + ")"
						}
					}
				}()
			}
			wg.Wait()
		})
	}
	// history independence within this process: after a prelude of failing and succeeding renders
	// (Files and fragments that use the same base names), every recipe must still render its
	// canonical output, in forward and in reverse order
	poison := func() {
		jh.RenderFile(func() *jen.File { f := jen.NewFile("x"); f.Var().Id("v").Op("=").Qual("z/f", "X").Op("{"); return f }())
		jh.Catch(func() (string, error) { return jen.Qual("y/f", "X").Op("{").Lit(1).GoString(), nil })
		jh.Catch(func() (string, error) { return jen.Qual("w/f", "X").Call().GoString(), nil })
		jh.Catch(func() (string, error) {
			return jen.Id("T").Values(jen.Dict{jen.Qual("v/f", "K"): jen.Op(")")}).GoString(), nil
		})
	}
	for pass := 0; pass < 2; pass++ {
		poison()
		for i := range c07Recipes {
			ri := i
			if pass == 1 {
				ri = len(c07Recipes) - 1 - i
			}
			rc := c07Recipes[ri]
			o := rc.build(func(c jen.Code) jen.Code { return c })
			results[ri].Executions++
			if h := c07Hash(o); h != results[ri].Canonical {
				if _, ok := results[ri].Outcomes[h]; !ok {
					results[ri].Outcomes[h] = c07Case{Recipe: rc.name, Policy: "after-other-renders"}
					results[ri].Outputs[h] = o.String()
				}
			}
			poison()
		}
	}
	var total, ranges int64
	allSites := map[string]int{}
	unc := map[string]int{}
	for _, res := range results {
		r.Eval(res.Executions)
		total += res.Executions
		ranges += res.RangeExecs
		for k := int64(0); k < res.Deviating; k++ {
			r.Distinct(fmt.Sprintf("%s#%d", res.Recipe, k))
		}
		for s, n := range res.Sites {
			allSites[s] += n
		}
		for s, n := range res.Uncontrolled {
			unc[s] += n
		}
		if !res.Complete {
			r.NotExhaustive("recipe " + res.Recipe + " stopped at its deadline")
		}
		if res.Incomplete {
			r.Note("maps_over_4_entries", "met: identity, reverse and rotations only for those")
		}
		r.Sample(map[string]any{"recipe": res.Recipe, "executions": res.Executions, "per_deviation_level": res.PerLevel, "distinct_outcomes": len(res.Outcomes), "canonical_output": jh.Short(res.Outputs[res.Canonical], 400)})
		if len(res.Outcomes) > 1 {
			var hs []string
			for h := range res.Outcomes {
				hs = append(hs, h)
			}
			sort.Strings(hs)
			var detail strings.Builder
			var cs c07Case
			for _, h := range hs {
				fmt.Fprintf(&detail, "--- outcome %s first seen with %+v\n%s\n", h, res.Outcomes[h], res.Outputs[h])
				if h != res.Canonical {
					cs = res.Outcomes[h]
				}
			}
			r.Violate(ev.Violation{Signature: "c07:" + res.Recipe, What: fmt.Sprintf("recipe %s has %d distinct outputs depending on map iteration order or on what was rendered before (e.g. under %+v)", res.Recipe, len(res.Outcomes), cs),
				Case: ev.JSON(cs), Detail: detail.String()})
		}
	}
	r.Note("states", total)
	r.Note("transitions", ranges)
	r.Note("traces_validated_against_impl", total)
	r.Note("dynamic_range_executions_per_site", allSites)
	r.Note("uncontrolled_range_executions", unc)
	if b, err := os.ReadFile(os.Getenv("VERIF_INSTR_LOG")); err == nil {
		r.Note("instrumenter", strings.TrimSpace(string(b)))
	}
	if len(unc) > 0 {
		r.NotExhaustive("some map ranges had keys that could not be ranked")
	}
}

func replayC07(raw json.RawMessage) (bool, string) {
	if !env.Instrumented {
		return true, "needs the instrumented build"
	}
	var c c07Case
	if err := json.Unmarshal(raw, &c); err != nil {
		return true, "bad case"
	}
	for _, rc := range c07Recipes {
		if rc.name != c.Recipe {
			continue
		}
		canonical, _ := c07Run(rc, nil)
		var o jh.Outcome
		switch {
		case c.Policy == "after-other-renders":
			return true, "the history-independence pass is replayed by running the check"
		case c.Policy == "native" || c.Policy == "native-process":
			for i := 0; i < 50; i++ {
				o = rc.build(func(c jen.Code) jen.Code { return c })
				if o.Key() != canonical.Key() {
					break
				}
			}
		case c.Policy != "":
			o, _ = c07Run(rc, c07Policy(c.Policy))
		default:
			rp := explore.NewReplay(c.Vector)
			o, _ = c07Run(rc, func(site string, n int) []int {
				perms, _ := c07Perms(n)
				return perms[rp.Choose(len(perms))]
			})
		}
		same := o.Key() == canonical.Key()
		return same, fmt.Sprintf("recipe %s under %+v:\n%s\n--- canonical order:\n%s", rc.name, c, o.String(), canonical.String())
	}
	return true, "unknown recipe"
}
