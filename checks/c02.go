package checks

import (
	"bytes"
	"encoding/json"
	"fmt"
	"go/format"
	"go/parser"
	"go/token"
	"io"
	"reflect"
	"strings"
	"sync"

	"github.com/dave/jennifer/jen"

	"verif/internal/a2j"
	"verif/internal/env"
	"verif/internal/ev"
	"verif/internal/explore"
	"verif/internal/jh"
)

// C02: a successful render is valid Go and exactly gofmt of the raw rendering; invalid
// compositions are reported as an error, never a panic, never emitted as if valid.

func init() {
	register(&Check{ID: "C02", Level: "exploration", Variant: "instr", Run: runC02, Replay: replayC02})
}

// c02Settings are File settings, each on or off.
var c02Settings = []struct {
	name  string
	apply func(f *jen.File)
}{
	{"PackagePrefix", func(f *jen.File) { f.PackagePrefix = "pre" }},
	{"ImportAlias", func(f *jen.File) { f.ImportAlias("x/y", "why"); f.ImportName("w/y", "y") }},
	{"Anon", func(f *jen.File) { f.Anon("z/anon") }},
	{"HeaderComment", func(f *jen.File) { f.HeaderComment("head"); f.HeaderComment("two\nlines") }},
	{"PackageComment", func(f *jen.File) { f.PackageComment("Package doc.") }},
	{"CanonicalPath", func(f *jen.File) { f.CanonicalPath = "canon/path" }},
	{"CgoPreamble", func(f *jen.File) { f.CgoPreamble("#include <a.h>") }},
	{"ImportAliasDot", func(f *jen.File) { f.ImportAlias("w/y", ".") }},
	{"PackageComment(/* open)", func(f *jen.File) { f.PackageComment("/* open") }},
	{"HeaderComment(/*)", func(f *jen.File) { f.HeaderComment("/*") }},
}

var c02Ctors = []struct {
	name string
	mk   func() *jen.File
}{
	{"NewFile(p)", func() *jen.File { return jen.NewFile("p") }},
	{"NewFilePath(x/y)", func() *jen.File { return jen.NewFilePath("x/y") }},
	{"NewFilePathName(w/y,q)", func() *jen.File { return jen.NewFilePathName("w/y", "q") }},
}

// c02Twin renders a File built by mk twice - formatted and with NoFormat - and judges the pair.
// kind: "valid" / "error" / "" with msg when the property is violated.
func c02Twin(mk func() (*jen.File, any)) (kind, msg string) {
	f1, p1 := mk()
	if p1 != nil {
		return "build-panic", "" // documented build-time panics (e.g. Lit of an unsupported type) are outside the alphabet
	}
	f2, _ := mk()
	f2.NoFormat = true
	w := &countWriter{}
	o := jh.Catch(func() (string, error) { err := f1.Render(w); return "", err })
	raw := jh.RenderFile(f2)
	if o.Panic != nil {
		return "", fmt.Sprintf("File.Render panics: %v", o.Panic)
	}
	if raw.Panic != nil {
		return "", fmt.Sprintf("File.Render with NoFormat panics: %v", raw.Panic)
	}
	if o.Err != nil {
		if w.calls != 0 {
			return "", fmt.Sprintf("File.Render returned an error after writing %d bytes", w.buf.Len())
		}
		return "error", ""
	}
	out := w.buf.Bytes()
	if _, err := parser.ParseFile(token.NewFileSet(), "out.go", out, parser.ParseComments); err != nil {
		return "", fmt.Sprintf("File.Render returned nil but the output is not a Go source file (%v):\n%s", err, jh.Short(string(out), 600))
	}
	if raw.Err != nil {
		return "", "formatted render succeeded but the NoFormat render of an identically built File failed: " + raw.Err.Error()
	}
	want, err := format.Source([]byte(raw.Out))
	if err != nil {
		return "", fmt.Sprintf("File.Render returned nil but gofmt rejects the raw rendering of an identically built File: %v", err)
	}
	if !bytes.Equal(out, want) {
		return "", fmt.Sprintf("output differs from gofmt of the raw rendering:\n--- output\n%s\n--- gofmt(raw)\n%s", jh.Short(string(out), 800), jh.Short(string(want), 800))
	}
	return "valid", ""
}

type countWriter struct {
	calls int
	buf   bytes.Buffer
}

func (w *countWriter) Write(p []byte) (int, error) { w.calls++; return w.buf.Write(p) }

// c02Fragment judges the fragment render entry points of a statement built by mk:
// Statement.Render, Statement.RenderWithFile with a default and with a NoFormat File, and
// Group.RenderWithFile with a NoFormat File (a fragment is always formatted, whatever the File).
func c02Fragment(mk func() (*jen.Statement, any)) (kind, msg string) {
	type entry struct {
		name string
		run  func(s *jen.Statement, w *countWriter) error
	}
	nf := func() *jen.File { f := jen.NewFile("p"); f.NoFormat = true; return f }
	entries := []entry{
		{"Statement.Render", func(s *jen.Statement, w *countWriter) error { return s.Render(w) }},
		{"Statement.RenderWithFile(NoFormat File)", func(s *jen.Statement, w *countWriter) error { return s.RenderWithFile(w, nf()) }},
		{"Group.RenderWithFile(NoFormat File)", func(s *jen.Statement, w *countWriter) error {
			var grp *jen.Group
			jen.CustomFunc(jen.Options{}, func(g *jen.Group) { g.Add(s); grp = g })
			return grp.RenderWithFile(w, nf())
		}},
	}
	kinds := map[string]bool{}
	for _, e := range entries {
		s, p := mk()
		if p != nil || s == nil {
			return "build-panic", ""
		}
		w := &countWriter{}
		o := jh.Catch(func() (string, error) { return "", e.run(s, w) })
		if o.Panic != nil {
			return "", fmt.Sprintf("%s panics: %v", e.name, o.Panic)
		}
		if o.Err != nil {
			if w.calls != 0 {
				return "", e.name + " returned an error after writing"
			}
			kinds["error"] = true
			continue
		}
		kinds["valid"] = true
		out := w.buf.String()
		if !jh.ParsesAsFragment(out) {
			// a fragment that is a complete file by itself (package clause) is tolerated: see DESIGN.md C02
			if _, err := parser.ParseFile(token.NewFileSet(), "", out, 0); err != nil {
				return "", fmt.Sprintf("%s returned nil but the output parses neither as declarations nor as statements: %q", e.name, jh.Short(out, 400))
			}
		}
	}
	if kinds["valid"] && kinds["error"] {
		return "", "the fragment render entry points disagree on whether the composition is valid"
	}
	if kinds["valid"] {
		return "valid", ""
	}
	return "error", ""
}

type c02Case struct {
	Kind     string `json:"kind"` // single | chain | nest | settings | damage
	A        string `json:"construct"`
	ACombo   []int  `json:"combo"`
	B        string `json:"second,omitempty"`
	BCombo   []int  `json:"second_combo,omitempty"`
	Settings int    `json:"settings_mask,omitempty"`
	Ctor     int    `json:"ctor,omitempty"`
	Vector   []int  `json:"vector,omitempty"`
	Desc     string `json:"description"`
}

var (
	c02Once sync.Once
	c02Cs   []c14Construct
	c02By   map[string]c14Construct
)

func c02Constructs() []c14Construct {
	c02Once.Do(func() {
		c02Cs, _ = apiConstructs(true)
		c02By = map[string]c14Construct{}
		for _, c := range c02Cs {
			c02By[c.name] = c
		}
	})
	return c02Cs
}

// c02Build builds the statement of a case: A(args) alone, A(args).B(args) (chain) or A(... B(args) ...) (nest).
func c02Build(c c02Case) (st *jen.Statement, panicked any) {
	a := c02By[c.A]
	s := &jen.Statement{}
	n := 0
	args := a.args(c.ACombo, &n)
	if c.Kind == "nest" {
		b := c02By[c.B]
		inner := &jen.Statement{}
		if _, p := call(reflect.ValueOf(inner).MethodByName(b.name), b.args(c.BCombo, &n), b.isVar); p != nil {
			return nil, p
		}
		// put the inner statement into the first Code / ...Code parameter
		for i, t := range a.params {
			if t == codeType {
				args[i] = reflect.ValueOf(inner)
				break
			}
			if t.Kind() == reflect.Slice && t.Elem() == codeType {
				args[i] = reflect.ValueOf([]jen.Code{inner, jen.Id("z")})
				break
			}
		}
	}
	if _, p := call(reflect.ValueOf(s).MethodByName(a.name), args, a.isVar); p != nil {
		return nil, p
	}
	if c.Kind == "chain" {
		b := c02By[c.B]
		if _, p := call(reflect.ValueOf(s).MethodByName(b.name), b.args(c.BCombo, &n), b.isVar); p != nil {
			return nil, p
		}
	}
	return s, nil
}

func c02File(c c02Case) (*jen.File, any) {
	st, p := c02Build(c)
	if p != nil {
		return nil, p
	}
	f := c02Ctors[c.Ctor].mk()
	for i, s := range c02Settings {
		if c.Settings&(1<<i) != 0 {
			s.apply(f)
		}
	}
	f.Add(st)
	return f, nil
}

func hasCodeParam(c c14Construct) bool {
	for _, t := range c.params {
		if t == codeType || (t.Kind() == reflect.Slice && t.Elem() == codeType) {
			return true
		}
	}
	return false
}

// ---- damage to valid programs

var c02Damages = []string{"delete", "replace-by-Op({)", "replace-by-Null()", "duplicate", "swap-with-next", "replace-by-Op())"}

// c02Damaged builds the File of a generated program with one damage at one list-construct site.
func c02Damaged(src string, site, item, damage int) (f *jen.File, sites int, applied bool, panicked any) {
	defer func() {
		if r := recover(); r != nil {
			panicked = r
		}
	}()
	af, err := parser.ParseFile(token.NewFileSet(), "gen.go", src, parser.ParseComments)
	if err != nil {
		return nil, 0, false, nil
	}
	c := &a2j.Conv{}
	c.Hooks.Items = func(s int, name string, items []jen.Code) []jen.Code {
		if s != site || item >= len(items) {
			return items
		}
		applied = true
		out := append([]jen.Code(nil), items...)
		switch damage {
		case 0:
			return append(out[:item], out[item+1:]...)
		case 1:
			out[item] = jen.Op("{")
		case 2:
			out[item] = jen.Null()
		case 3:
			return append(out[:item+1], out[item:]...)
		case 4:
			if item+1 < len(out) {
				out[item], out[item+1] = out[item+1], out[item]
			} else {
				applied = false
			}
		case 5:
			out[item] = jen.Op(")")
		}
		return out
	}
	f = c.File(af, ggRealName)
	if c.Skip != "" {
		return nil, c.Sites, false, nil
	}
	return f, c.Sites, applied, nil
}

func runC02(r *ev.Recorder) {
	if r.Tier == ev.Thorough {
		r.SetDeadline(50 * 60 * 1e9)
	} else {
		r.SetDeadline(8 * 60 * 1e9)
	}
	cs := c02Constructs()
	r.Rule = fmt.Sprintf("(a) compositions of every exported builder (%d constructs by reflection) with arguments from tiny domains that include nonsensical text (\"\", \"+\", \"{\", newline, \"//x\", \")\", \"0X1F\"): every single construct x every argument combination; "+
		"every chain A(..).B(..) and every nesting A(.. B(..) ..) of two constructs (quick: B with its first four argument combinations; thorough: all) - each as the body of a File (formatted and as NoFormat twin) and through Statement.Render; "+
		"(b) every single construct under every combination of %d File settings x %d constructors; (c) valid generated programs (gogen, <= 2 deviations) with EVERY single damage (%v) at EVERY item of EVERY list-construct site. "+
		"Oracle: no panic; File.Render nil => output parses with go/parser as a file AND equals format.Source of what an identically rebuilt File renders with NoFormat; Statement.Render nil => output parses as declarations or statements; error => the writer received nothing. "+
		"(e) comments of the C15 domain (texts of length <= 2 and code-like ones) at every position of the C15 hosts: formatted == gofmt(raw twin). (g) every text of length <= 4 over {/ * space a newline} as PackageComment / HeaderComment / both over 6 bodies (comments and literals holding */, declarations): twin comparison, and a nil error means a Go file with its package clause. (f) every token sequence of length <= 3 over {Id, Lit, ) } ] ( ,} through Statement.Render, Statement.RenderWithFile and Group.Render into a plain io.Writer and a *bytes.Buffer, empty or already holding one of 5 texts the fragment could complete: verdict and appended bytes equal those for an empty plain writer, earlier content untouched. (d) instrumented build: for the C07 recipes the formatted render under canonical map order must equal gofmt of the raw render of an identically built File under canonical, reversed and rotated map orders. distinct_nontrivial = distinct cases per outcome class; both classes (valid / error) must be populated", len(cs), len(c02Settings), len(c02Ctors), c02Damages)
	r.Assume = []string{"documented deliberate panics are outside the alphabet (Lit of an unsupported type, a Dict next to other items in Values, nil callbacks, nil Dict keys/values)",
		"a fragment whose text is a complete file by itself (e.g. a bare package clause) is tolerated for Statement.Render"}
	var mu sync.Mutex
	classes := map[string]int64{}
	judge := func(c c02Case, fragment bool) {
		kind, msg := c02Twin(func() (*jen.File, any) { return c02File(c) })
		r.Eval(1)
		mu.Lock()
		classes["file:"+kind]++
		mu.Unlock()
		if kind != "build-panic" {
			r.Distinct(c.Desc + kind)
		}
		if msg != "" {
			r.Violate(ev.Violation{Signature: "c02:" + c.Kind + ":" + problemKind(msg), What: c.Desc + ": " + jh.Short(msg, 300), Case: ev.JSON(c), Detail: msg})
		}
		if fragment {
			kind, msg := c02Fragment(func() (*jen.Statement, any) { return c02Build(c) })
			r.Eval(1)
			mu.Lock()
			classes["fragment:"+kind]++
			mu.Unlock()
			if msg != "" {
				r.Violate(ev.Violation{Signature: "c02:fragment:" + problemKind(msg), What: c.Desc + ": " + jh.Short(msg, 300), Case: ev.JSON(c), Detail: msg})
			}
		}
	}
	type ac struct {
		c     c14Construct
		combo []int
	}
	var singles []ac
	for _, c := range cs {
		for _, combo := range combos(c.domains) {
			singles = append(singles, ac{c, combo})
		}
	}
	r.Count("single_cases", int64(len(singles)))
	// (a) singles
	explore.Range(int64(len(singles)), 0, r.Expired, func(_ int, i int64) {
		a := singles[i]
		judge(c02Case{Kind: "single", A: a.c.name, ACombo: a.combo, Desc: a.c.describe(a.combo)}, true)
	})
	// chains and nests
	var seconds []ac
	for _, c := range cs {
		cb := combos(c.domains)
		lim := len(cb)
		if r.Tier != ev.Thorough && lim > 4 {
			lim = 4
		}
		for _, combo := range cb[:lim] {
			seconds = append(seconds, ac{c, combo})
		}
	}
	total := int64(len(singles)) * int64(len(seconds))
	done := explore.Range(total, 0, r.Expired, func(_ int, i int64) {
		a, b := singles[i/int64(len(seconds))], seconds[i%int64(len(seconds))]
		judge(c02Case{Kind: "chain", A: a.c.name, ACombo: a.combo, B: b.c.name, BCombo: b.combo, Desc: a.c.describe(a.combo) + "." + b.c.describe(b.combo)}, i%3 == 0)
		if hasCodeParam(a.c) {
			judge(c02Case{Kind: "nest", A: a.c.name, ACombo: a.combo, B: b.c.name, BCombo: b.combo, Desc: a.c.describe(a.combo) + " containing " + b.c.describe(b.combo)}, false)
		}
	})
	if !done {
		r.NotExhaustive("deadline inside the chain / nest enumeration")
	}
	// (b) settings
	nset := int64(1) << len(c02Settings)
	explore.Range(int64(len(singles))*nset*int64(len(c02Ctors)), 0, r.Expired, func(_ int, i int64) {
		a := singles[i/(nset*int64(len(c02Ctors)))]
		rest := i % (nset * int64(len(c02Ctors)))
		mask, ctor := int(rest/int64(len(c02Ctors))), int(rest%int64(len(c02Ctors)))
		if r.Tier != ev.Thorough && len(a.combo) > 0 && a.combo[0] > 1 && mask&(mask-1) != 0 {
			return // quick: all setting combinations only for the first two values of the first argument; single settings for the rest
		}
		var on []string
		for k, s := range c02Settings {
			if mask&(1<<k) != 0 {
				on = append(on, s.name)
			}
		}
		judge(c02Case{Kind: "settings", A: a.c.name, ACombo: a.combo, Settings: mask, Ctor: ctor, Desc: fmt.Sprintf("%s in %s with %v", a.c.describe(a.combo), c02Ctors[ctor].name, on)}, false)
	})
	// (c) damage
	var progs []string
	var vecs [][]int
	explore.Explore(explore.Options{MaxDev: 2, Workers: 1}, func(c *explore.Ctx) {
		progs = append(progs, gogenProgram(c, 3, 3))
		vecs = append(vecs, c.Vector())
	})
	var damaged int64
	explore.Range(int64(len(progs)), 0, r.Expired, func(_ int, pi int64) {
		src := progs[pi]
		_, sites, _, _ := c02Damaged(src, -1, 0, 0)
		{ // the undamaged program itself
			kind, msg := c02Twin(func() (*jen.File, any) {
				f, _, _, p := c02Damaged(src, -1, 0, 0)
				if f == nil && p == nil {
					p = "program not translatable"
				}
				return f, p
			})
			r.Eval(1)
			mu.Lock()
			classes["program:"+kind]++
			mu.Unlock()
			if msg != "" {
				desc := fmt.Sprintf("generated program %v (undamaged)", vecs[pi])
				r.Violate(ev.Violation{Signature: "c02:program:" + problemKind(msg), What: desc + ": " + jh.Short(msg, 300),
					Case: ev.JSON(c02Case{Kind: "damage", Vector: append(append([]int{}, vecs[pi]...), -1, -1, 0, 0), Desc: desc}), Detail: msg + "\n--- program\n" + src})
			}
		}
		for site := 0; site < sites; site++ {
			for item := 0; item < 6; item++ {
				anyApplied := false
				for dmg := range c02Damages {
					f, _, applied, p := c02Damaged(src, site, item, dmg)
					if p != nil {
						r.Violate(ev.Violation{Signature: "c02:damage:build-panic", What: fmt.Sprintf("building a damaged program panics: %v", p), Case: ev.JSON(c02Case{Kind: "damage", Vector: append(append([]int{}, vecs[pi]...), -1, site, item, dmg), Desc: "damage"})})
						continue
					}
					if !applied || f == nil {
						continue
					}
					anyApplied = true
					desc := fmt.Sprintf("generated program %v with damage %s at site %d item %d", vecs[pi], c02Damages[dmg], site, item)
					kind, msg := c02Twin(func() (*jen.File, any) {
						f, _, _, p := c02Damaged(src, site, item, dmg)
						return f, p
					})
					r.Eval(1)
					mu.Lock()
					classes["damage:"+kind]++
					damaged++
					mu.Unlock()
					r.Distinct(desc + kind)
					if msg != "" {
						r.Violate(ev.Violation{Signature: "c02:damage:" + problemKind(msg), What: desc + ": " + jh.Short(msg, 300),
							Case: ev.JSON(c02Case{Kind: "damage", Vector: append(append([]int{}, vecs[pi]...), -1, site, item, dmg), Desc: desc}), Detail: msg + "\n--- program\n" + src})
					}
					if damaged%5003 == 0 && r.WantSample() {
						r.Sample(map[string]any{"case": desc, "outcome": kind, "program": src})
					}
				}
				if !anyApplied {
					break
				}
			}
		}
	})
	// (e) comments: every text of length <= 2 over the C15 alphabet (and the longer code-like
	// ones) at the end of every item and as an item of its own in every C15 host: formatted
	// output == gofmt(raw output of an identically built File)
	{
		texts := append(c15Texts(2), "x := map[string]int{\"a\": 1}", "line one\nline two\n", "\nleading newline", "a // b", "} else {", "func f() {\n\treturn\n}", "x\ny")
		for hi, h := range c15Hosts {
			n := len(h.items())
			for pos := 0; pos <= n; pos++ {
				for _, atEnd := range []bool{false, true} {
					if atEnd && pos == n {
						continue
					}
					for _, t := range texts {
						formatted := c15Build(hi, pos, atEnd, 0, t, false, true)
						raw := c15Build(hi, pos, atEnd, 0, t, true, true)
						r.Eval(1)
						mu.Lock()
						classes["comment-twin"]++
						mu.Unlock()
						desc := fmt.Sprintf("Comment(%q) in %s at %d (end of item %v)", t, h.name, pos, atEnd)
						msg := ""
						switch {
						case formatted.Panic != nil || raw.Panic != nil:
							msg = fmt.Sprintf("panic: %v %v", formatted.Panic, raw.Panic)
						case formatted.OK() && raw.OK():
							want, err := format.Source([]byte(raw.Out))
							if err != nil || string(want) != formatted.Out {
								msg = fmt.Sprintf("output differs from gofmt of the raw rendering (%v):\n--- output\n%s\n--- gofmt(raw)\n%s", err, formatted.Out, want)
							}
						case formatted.OK() && !raw.OK():
							msg = "formatted render succeeded but the NoFormat twin failed"
						}
						if msg != "" {
							r.Violate(ev.Violation{Signature: "c02:comment-twin:" + problemKind(msg), What: desc + ": " + jh.Short(msg, 200), Case: ev.JSON(c02Case{Kind: "twin", A: "comment", Desc: desc}), Detail: msg})
						}
					}
				}
			}
		}
	}
	// (g) file comments: every text of length <= 4 over {/ * space a newline} as package comment,
	// header comment or both, over bodies that can close a comment the text leaves open and carry
	// on with declarations (a successful Render must still be a Go file with its package clause).
	{
		texts := c02FileCommentTexts()
		explore.Range(int64(len(texts))*3*int64(len(c02FileCommentBodies)), 0, r.Expired, func(_ int, i int64) {
			nb := int64(len(c02FileCommentBodies))
			t, where, body := texts[i/(3*nb)], int(i/nb%3), int(i%nb)
			c := c02Case{Kind: "filecomment", B: t, Settings: where, Ctor: body, Desc: fmt.Sprintf("file comment %q (%s) over body %s", t, []string{"PackageComment", "HeaderComment", "both"}[where], c02FileCommentBodies[body].name)}
			kind, msg := c02Twin(func() (*jen.File, any) { return c02FileCommentFile(c), nil })
			r.Eval(1)
			mu.Lock()
			classes["filecomment:"+kind]++
			mu.Unlock()
			r.Distinct("filecomment" + c.Desc + kind)
			if msg != "" {
				r.Violate(ev.Violation{Signature: "c02:filecomment:" + problemKind(msg), What: c.Desc + ": " + jh.Short(msg, 300), Case: ev.JSON(c), Detail: msg})
			}
		})
	}
	// (f) fragments rendered into writers that already hold text: every token sequence of length
	// <= 3 over a small alphabet of closers, openers and operands, through the three fragment entry
	// points, into a *bytes.Buffer / a plain io.Writer, empty or pre-filled with text that the
	// fragment could complete. Verdict and bytes must not depend on the writer: what is appended
	// equals what an empty plain writer receives, and the earlier content stays.
	{
		toks := []struct {
			name string
			add  func(s *jen.Statement)
		}{
			{"Id(a)", func(s *jen.Statement) { s.Id("a") }}, {"Op())", func(s *jen.Statement) { s.Op(")") }}, {"Op(})", func(s *jen.Statement) { s.Op("}") }},
			{"Op(])", func(s *jen.Statement) { s.Op("]") }}, {"Op(()", func(s *jen.Statement) { s.Op("(") }}, {"Op(,)", func(s *jen.Statement) { s.Op(",") }}, {"Lit(1)", func(s *jen.Statement) { s.Lit(1) }},
		}
		prefixes := []string{"", "f(", "x := []int{", "a[", "func() {", "var x = 1\n"}
		type entry struct {
			name string
			run  func(s *jen.Statement, w io.Writer) error
		}
		entries := []entry{
			{"Statement.Render", func(s *jen.Statement, w io.Writer) error { return s.Render(w) }},
			{"Statement.RenderWithFile", func(s *jen.Statement, w io.Writer) error { return s.RenderWithFile(w, jen.NewFile("p")) }},
			{"Group.Render", func(s *jen.Statement, w io.Writer) error {
				var grp *jen.Group
				jen.CustomFunc(jen.Options{}, func(g *jen.Group) { g.Add(s); grp = g })
				return grp.Render(w)
			}},
		}
		var seqs [][]int
		for l := 1; l <= 3; l++ {
			n := 1
			for i := 0; i < l; i++ {
				n *= len(toks)
			}
			for k := 0; k < n; k++ {
				seq, j := make([]int, l), k
				for i := range seq {
					seq[i] = j % len(toks)
					j /= len(toks)
				}
				seqs = append(seqs, seq)
			}
		}
		explore.Range(int64(len(seqs)), 0, r.Expired, func(_ int, si int64) {
			seq := seqs[si]
			build := func() (*jen.Statement, string) {
				s := &jen.Statement{}
				var names []string
				for _, t := range seq {
					toks[t].add(s)
					names = append(names, toks[t].name)
				}
				return s, strings.Join(names, ".")
			}
			for _, e := range entries {
				var baseOut string
				var baseErr bool
				for pi, prefix := range prefixes {
					for kind := 0; kind < 2; kind++ {
						s, name := build()
						var buf bytes.Buffer
						buf.WriteString(prefix)
						var w io.Writer = &buf
						if kind == 0 {
							w = struct{ io.Writer }{&buf}
						}
						o := jh.Catch(func() (string, error) { return "", e.run(s, w) })
						r.Eval(1)
						desc := fmt.Sprintf("%s of %s into a %s holding %q", e.name, name, []string{"plain io.Writer", "*bytes.Buffer"}[kind], prefix)
						msg := ""
						got := buf.String()
						switch {
						case o.Panic != nil:
							msg = fmt.Sprintf("panic: %v", o.Panic)
						case pi == 0 && kind == 0:
							baseErr, baseOut = o.Err != nil, got
							if o.Err == nil {
								r.Distinct("prefilled:" + e.name + name)
							}
						case (o.Err != nil) != baseErr:
							msg = fmt.Sprintf("verdict depends on the writer: error=%v here, error=%v into an empty plain writer", o.Err, baseErr)
						case !strings.HasPrefix(got, prefix):
							msg = fmt.Sprintf("the writer's earlier content %q was changed: now %q", prefix, got)
						case got[len(prefix):] != baseOut:
							msg = fmt.Sprintf("wrote %q, but %q into an empty plain writer", got[len(prefix):], baseOut)
						}
						if msg != "" {
							r.Violate(ev.Violation{Signature: "c02:prefilled-writer:" + e.name + ":" + problemKind(msg), What: desc + ": " + jh.Short(msg, 200), Case: ev.JSON(c02Case{Kind: "prefilled", A: name, Desc: desc}), Detail: msg})
						}
					}
				}
			}
		})
		mu.Lock()
		classes["fragment-into-prefilled-writer"] = int64(len(seqs) * len(entries) * len(prefixes) * 2)
		mu.Unlock()
	}
	// (d) twins under different map iteration orders (instrumented build): the formatted render
	// under canonical order must equal gofmt of the raw render of an identically built File
	// under every uniform order policy
	if env.Instrumented {
		for _, rc := range c07Recipes {
			if rc.name == "dict-fragment-statement-render" || rc.name == "imports-noformat" {
				continue
			}
			formatted, _ := c07Run(rc, nil)
			for _, pol := range []string{"", "reverse", "rotate1", "rotate2", "rotate3"} {
				c07ForceNoFormat = true
				raw, _ := c07Run(rc, c07Policy(pol))
				c07ForceNoFormat = false
				r.Eval(1)
				desc := fmt.Sprintf("recipe %s: formatted under canonical map order vs gofmt(raw) under order policy %q", rc.name, pol)
				r.Distinct(desc)
				msg := ""
				switch {
				case formatted.OK() != raw.OK():
					msg = fmt.Sprintf("formatted render: %s; raw render: %s", jh.Short(formatted.String(), 200), jh.Short(raw.String(), 200))
				case formatted.OK():
					want, err := format.Source([]byte(raw.Out))
					if err != nil || string(want) != formatted.Out {
						msg = fmt.Sprintf("output differs from gofmt of the raw rendering of an identically built File:\n--- output\n%s\n--- gofmt(raw)\n%s", formatted.Out, want)
					}
				}
				if msg != "" {
					r.Violate(ev.Violation{Signature: "c02:twin-map-order:" + rc.name, What: desc + ": " + jh.Short(msg, 200), Case: ev.JSON(c02Case{Kind: "twin", A: rc.name, B: pol, Desc: desc}), Detail: msg})
				}
			}
		}
	} else {
		r.Note("twin_map_orders", "skipped: needs the instrumented build (run through run.sh)")
	}
	r.Note("outcome_classes", classes)
	r.Note("damaged_programs", damaged)
	r.Sample(map[string]any{"case": "Op(\"{\") as the body of a File", "outcome": "error (format.Source rejects it; nothing written)"})
	if classes["file:valid"] == 0 || classes["file:error"] == 0 {
		fmt.Println("C02: one outcome class is empty - the composition space is vacuous", classes)
	}
}


// c02FileCommentBodies follow the package clause in pass (g).
var c02FileCommentBodies = []struct {
	name string
	add  func(f *jen.File)
}{
	{"none", func(f *jen.File) {}},
	{"var", func(f *jen.File) { f.Var().Id("x").Op("=").Lit(1) }},
	{"Comment(*/)", func(f *jen.File) { f.Comment("*/") }},
	{"Comment(*/);var", func(f *jen.File) { f.Comment("*/"); f.Var().Id("x").Op("=").Lit(1) }},
	{"Comment(/* c */);func", func(f *jen.File) { f.Comment("/* c */"); f.Func().Id("g").Params().Block() }},
	{"Lit(*/);var", func(f *jen.File) { f.Var().Id("s").Op("=").Lit("*/"); f.Var().Id("x").Op("=").Lit(1) }},
}

func c02FileCommentTexts() []string {
	alpha := []byte{'/', '*', ' ', 'a', '\n'}
	var out []string
	var rec func(prefix []byte, l int)
	rec = func(prefix []byte, l int) {
		if len(prefix) == l {
			out = append(out, string(prefix))
			return
		}
		for _, b := range alpha {
			rec(append(append([]byte{}, prefix...), b), l)
		}
	}
	for l := 1; l <= 4; l++ {
		rec(nil, l)
	}
	return append(out, "/* a */ /*/", "/**//*/", "/* open", "// a\n/*")
}

func c02FileCommentFile(c c02Case) *jen.File {
	f := jen.NewFile("p")
	if c.Settings == 1 || c.Settings == 2 {
		f.HeaderComment(c.B)
	}
	if c.Settings == 0 || c.Settings == 2 {
		f.PackageComment(c.B)
	}
	c02FileCommentBodies[c.Ctor%len(c02FileCommentBodies)].add(f)
	return f
}

func replayC02(raw json.RawMessage) (bool, string) {
	var c c02Case
	if err := json.Unmarshal(raw, &c); err != nil {
		return true, "bad case"
	}
	c02Constructs()
	if c.Kind == "twin" {
		return true, "the twin comparison under map orders is replayed by running the check"
	}
	if c.Kind == "filecomment" {
		_, msg := c02Twin(func() (*jen.File, any) { return c02FileCommentFile(c), nil })
		return msg == "", c.Desc + ": " + msg
	}
	if c.Kind == "prefilled" {
		return true, "the pre-filled writer cases are replayed by running the check (" + c.Desc + ")"
	}
	if c.Kind == "damage" {
		i := 0
		for i < len(c.Vector) && c.Vector[i] != -1 {
			i++
		}
		if i+3 >= len(c.Vector) {
			return true, "bad damage case"
		}
		src := gogenProgram(explore.NewReplay(c.Vector[:i]), 3, 3)
		site, item, dmg := c.Vector[i+1], c.Vector[i+2], c.Vector[i+3]
		_, msg := c02Twin(func() (*jen.File, any) {
			f, _, _, p := c02Damaged(src, site, item, dmg)
			return f, p
		})
		return msg == "", c.Desc + ": " + msg + "\n--- program\n" + src
	}
	if _, ok := c02By[c.A]; !ok {
		return true, "construct not present"
	}
	_, msg := c02Twin(func() (*jen.File, any) { return c02File(c) })
	if msg == "" {
		_, msg = c02Fragment(func() (*jen.Statement, any) { return c02Build(c) })
	}
	return msg == "", c.Desc + ": " + msg
}

var _ = strings.Join
