package checks

import (
	"encoding/json"
	"fmt"
	"go/ast"
	"reflect"
	"sort"
	"strconv"
	"strings"

	"github.com/dave/jennifer/jen"

	"verif/internal/ev"
	"verif/internal/explore"
	"verif/internal/jh"
)

// C17: struct tags round-trip through reflect.StructTag.

func init() {
	register(&Check{ID: "C17", Level: "exploration", Run: runC17, Replay: replayC17})
}

var c17Keys = []string{"a", "json", "x-y", "z_1"}

type c17Case struct {
	Keys      []string `json:"keys"`
	Values    []string `json:"values_quoted"` // strconv.Quote of each value
	Formatted bool     `json:"formatted"`
}

func (c c17Case) tagMap() map[string]string {
	m := map[string]string{}
	for i, k := range c.Keys {
		v, _ := strconv.Unquote(c.Values[i])
		m[k] = v
	}
	return m
}

// c17TagKeys lists the keys of a conventional struct tag in order of appearance.
func c17TagKeys(tag string) ([]string, error) {
	var keys []string
	for tag != "" {
		tag = strings.TrimLeft(tag, " ")
		if tag == "" {
			break
		}
		i := strings.IndexByte(tag, ':')
		if i <= 0 {
			return keys, fmt.Errorf("no key before %q", tag)
		}
		keys = append(keys, tag[:i])
		q, err := strconv.QuotedPrefix(tag[i+1:])
		if err != nil {
			return keys, fmt.Errorf("value of %s is not a quoted string: %v", tag[:i], err)
		}
		tag = tag[i+1+len(q):]
	}
	return keys, nil
}

func c17Check(m map[string]string, formatted bool) string {
	var cp map[string]string
	if m != nil {
		cp = map[string]string{}
		for k, v := range m {
			cp[k] = v
		}
	}
	st := jen.Type().Id("T").Struct(jen.Id("F").Int().Tag(cp), jen.Id("G").String())
	var o jh.Outcome
	if formatted {
		f := jen.NewFile("p")
		f.Add(st)
		o = jh.RenderFile(f)
	} else {
		o = jh.Raw(st)
		o.Out = "package p\n" + o.Out
	}
	if !o.OK() {
		return "render failed: " + jh.Short(o.String(), 300)
	}
	af, _, err := jh.ParseFile(o.Out)
	if err != nil {
		return fmt.Sprintf("output does not parse: %v: %q", err, jh.Short(o.Out, 300))
	}
	var fields []*ast.Field
	ast.Inspect(af, func(n ast.Node) bool {
		if s, ok := n.(*ast.StructType); ok {
			fields = s.Fields.List
		}
		return true
	})
	if len(fields) != 2 || len(fields[0].Names) != 1 || fields[0].Names[0].Name != "F" || fields[1].Names[0].Name != "G" || fields[1].Tag != nil {
		return fmt.Sprintf("struct does not have exactly the fields F and G (untagged): %q", jh.Short(o.Out, 300))
	}
	tag := fields[0].Tag
	if len(m) == 0 {
		if tag != nil {
			return fmt.Sprintf("empty map rendered tag %s", tag.Value)
		}
		return ""
	}
	if tag == nil {
		return "no tag rendered"
	}
	val, err := strconv.Unquote(tag.Value)
	if err != nil {
		return fmt.Sprintf("tag literal %s does not unquote", tag.Value)
	}
	st2 := reflect.StructTag(val)
	for k, want := range m {
		got, ok := st2.Lookup(k)
		if !ok || got != want {
			return fmt.Sprintf("tag %s: Lookup(%q) = %q, %v; want %q", tag.Value, k, got, ok, want)
		}
	}
	keys, err := c17TagKeys(val)
	if err != nil {
		return fmt.Sprintf("tag %s is not in conventional format: %v", tag.Value, err)
	}
	if !sort.StringsAreSorted(keys) {
		return fmt.Sprintf("tag %s: keys %v not sorted", tag.Value, keys)
	}
	if len(keys) != len(m) {
		return fmt.Sprintf("tag %s has keys %v, want exactly those of %v", tag.Value, keys, m)
	}
	return ""
}

func runC17(r *ev.Recorder) {
	r.SetDeadline(10 * 60 * 1e9)
	unitLen1, unitLen3 := 1, 3
	if r.Tier == ev.Thorough {
		unitLen1, unitLen3 = 2, 4
		r.SetDeadline(30 * 60 * 1e9)
	}
	r.Rule = fmt.Sprintf("Tag maps over keys %v: (a) one key x every byte string of length <= 2 over all 256 byte values, raw and gofmt-formatted; "+
		"(b) every 1-key map x every string of length <= %d over the 26 C12 units; (c) every 2- and 3-key subset x every combination of values of length <= %d over the units "+
		"(one key additionally over length <= 2); (d) empty and nil map; (e) key order: every pair (and triples: a stride in quick, all in thorough) of keys of length <= 2 over 13 characters around ':' in ASCII order, prefixes of each other included. Oracle: parse the struct, strconv.Unquote the tag literal, reflect.StructTag.Lookup(k) == m[k] for all k, "+
		"keys sorted, no other key. Also: values around power-of-two sizes, many pairs, maps filled or changed after Tag was called, and (j) tagged structs rendered stand-alone straight after fragment renders that gofmt rejected or that panicked (same literal as in a File). distinct_nontrivial = distinct (map) inputs with at least one value that is not plain printable ASCII", c17Keys, unitLen3, unitLen1)
	r.Assume = []string{"reflect.StructTag and go/parser define the reading of a tag", "tag keys outside the 4 representatives and longer values are outside the bound"}

	fail := func(m map[string]string, formatted bool, msg string) {
		c := c17Case{Formatted: formatted}
		for k := range m {
			c.Keys = append(c.Keys, k)
		}
		sort.Strings(c.Keys)
		for _, k := range c.Keys {
			c.Values = append(c.Values, strconv.Quote(m[k]))
		}
		r.Violate(ev.Violation{Signature: fmt.Sprintf("c17:keys=%d", len(m)), What: fmt.Sprintf("Tag(%q): %s", m, msg), Case: ev.JSON(c), Detail: msg})
	}
	one := func(m map[string]string, formatted bool) {
		r.Eval(1)
		triv := true
		key := ""
		ks := make([]string, 0, len(m))
		for k := range m {
			ks = append(ks, k)
		}
		sort.Strings(ks)
		for _, k := range ks {
			key += k + "=" + m[k] + "\x00"
			triv = triv && c12Trivial(m[k])
		}
		if !triv {
			r.Distinct(key)
		}
		if msg := c17Check(m, formatted); msg != "" {
			fail(m, formatted, msg)
		}
	}
	one(nil, false)
	one(map[string]string{}, false)
	one(map[string]string{}, true)

	// (a)
	explore.Range(1+256+65536, 0, r.Expired, func(_ int, i int64) {
		var s string
		switch {
		case i == 0:
		case i <= 256:
			s = string([]byte{byte(i - 1)})
		default:
			j := i - 257
			s = string([]byte{byte(j >> 8), byte(j)})
		}
		one(map[string]string{"json": s}, false)
		one(map[string]string{"json": s}, true)
	})

	units := func(maxLen int) []string {
		out := []string{""}
		prev := []string{""}
		for l := 1; l <= maxLen; l++ {
			var next []string
			for _, p := range prev {
				for _, u := range c12Units {
					next = append(next, p+u)
				}
			}
			out = append(out, next...)
			prev = next
		}
		return out
	}
	// (b)
	vb := units(unitLen3)
	for _, k := range c17Keys {
		k := k
		explore.Range(int64(len(vb)), 0, r.Expired, func(_ int, i int64) { one(map[string]string{k: vb[i]}, false) })
	}
	// (c)
	v1 := units(unitLen1)
	v1short := units(1)
	v2 := units(2)
	nk := len(c17Keys)
	for mask := 1; mask < 1<<nk; mask++ {
		var ks []string
		for i, k := range c17Keys {
			if mask&(1<<i) != 0 {
				ks = append(ks, k)
			}
		}
		if len(ks) < 2 || len(ks) > 3 {
			continue
		}
		ks2 := ks
		vals := v1
		if len(ks) == 3 {
			vals = v1short // three keys: values of length <= 1 in both tiers (703^3 would be 3.5e8 per subset)
		}
		total := int64(1)
		for range ks2 {
			total *= int64(len(vals))
		}
		explore.Range(total, 0, r.Expired, func(_ int, i int64) {
			m := map[string]string{}
			for _, k := range ks2 {
				m[k] = vals[i%int64(len(vals))]
				i /= int64(len(vals))
			}
			one(m, false)
		})
		if len(ks) == 2 {
			for first := 0; first < 2; first++ {
				first := first
				explore.Range(int64(len(v2)*len(v1)), 0, r.Expired, func(_ int, i int64) {
					m := map[string]string{ks2[first]: v2[i%int64(len(v2))], ks2[1-first]: v1[i/int64(len(v2))]}
					one(m, false)
				})
			}
		}
	}
	// (e) key order: every 2- and 3-element set of keys of length <= 2 over characters that sort
	// below ':' (the key/value separator), between, and above, including prefixes of each other
	kchars := []byte{'!', '-', '.', '0', '9', ';', 'A', '_', 'a', 'b', '~', '\\', '`'}
	var ekeys []string
	for _, c := range kchars {
		ekeys = append(ekeys, string([]byte{c}))
	}
	for _, c := range kchars {
		for _, d := range kchars {
			ekeys = append(ekeys, string([]byte{c, d}))
		}
	}
	evals := []string{"", "z", "!", "\"", "\n"}
	ne := int64(len(ekeys))
	explore.Range(ne*ne, 0, r.Expired, func(_ int, i int64) {
		a, b := i/ne, i%ne
		if a >= b {
			return
		}
		one(map[string]string{ekeys[a]: evals[(a+b)%5], ekeys[b]: evals[(a*b)%5]}, false)
		tier3 := int64(40)
		if r.Tier == ev.Thorough {
			tier3 = ne
		}
		// third key: all keys (thorough) or a stride of them (quick)
		for c := b + 1; c < ne; c += ne / tier3 {
			one(map[string]string{ekeys[a]: evals[(a+b)%5], ekeys[b]: evals[(a*b)%5], ekeys[c]: evals[(a+c)%5]}, false)
		}
	})
	r.Count("key_order_keys", ne)
	// (h) plain values around every power-of-two-ish size (raw-string branch), and many short pairs
	for n := 200; n <= 300; n++ {
		one(map[string]string{"k": strings.Repeat("a", n)}, false)
	}
	for _, n := range []int{500, 1000, 4095, 4096, 4097, 65535, 65536, 70000} {
		one(map[string]string{"k": strings.Repeat("b", n), "j": "x"}, false)
		one(map[string]string{"k": strings.Repeat("b", n)}, true)
	}
	for _, nk := range []int{30, 41, 64, 100} {
		m := map[string]string{}
		for i := 0; i < nk; i++ {
			m[fmt.Sprintf("key%03d", i)] = "v"
		}
		one(m, false)
	}
	// (i) a map that is empty when handed to Tag and filled before the render
	{
		m := map[string]string{}
		st := jen.Type().Id("T").Struct(jen.Id("F").Int().Tag(m), jen.Id("G").String())
		m["json"] = "late"
		got := jh.Raw(st)
		want := jh.Raw(jen.Type().Id("T").Struct(jen.Id("F").Int().Tag(map[string]string{"json": "late"}), jen.Id("G").String()))
		r.Eval(1)
		r.Distinct("empty-then-filled")
		if got.Key() != want.Key() {
			r.Violate(ev.Violation{Signature: "c17:map-filled-after-Tag", What: fmt.Sprintf("Tag(m) with m empty at the call and filled before rendering renders %q, want %q", got, want), Case: ev.JSON(c17Case{Keys: []string{"shared-map"}})})
		}
	}
	// (k) the tag is appended to a field that is already part of the struct (the DSL holds statements
	// by reference), and to clones of one field template (template lengths 1..9)
	for _, m := range []map[string]string{{"json": "a"}, {"a": "1", "b": "`"}} {
		field := jen.Id("F").Int()
		var kept *jen.Statement
		st := jen.Type().Id("T").StructFunc(func(g *jen.Group) {
			g.Add(field)
			kept = g.Id("G").String()
		})
		field.Tag(m)
		_ = kept
		got := jh.Raw(st)
		want := jh.Raw(jen.Type().Id("T").Struct(jen.Id("F").Int().Tag(m), jen.Id("G").String()))
		r.Eval(1)
		r.Distinct(fmt.Sprintf("tag-after-add-%d", len(m)))
		if got.Key() != want.Key() {
			r.Violate(ev.Violation{Signature: "c17:tag-after-field-was-added", What: fmt.Sprintf("field added to the struct first, Tag(%q) appended afterwards: %q, want %q", m, got, want), Case: ev.JSON(c17Case{Keys: []string{"shared-map"}})})
		}
	}
	for n := 1; n <= 9; n++ {
		tmpl := jen.Id("F")
		for i := 1; i < n; i++ {
			tmpl.Op("*")
		}
		tmpl.Int()
		a := tmpl.Clone().Tag(map[string]string{"json": "a", "xml": "x"})
		b := tmpl.Clone().Tag(map[string]string{"json": "b"})
		for i, pair := range [][2]*jen.Statement{{a, nil}, {b, nil}} {
			want := map[string]string{"json": "a", "xml": "x"}
			if i == 1 {
				want = map[string]string{"json": "b"}
			}
			got := jh.Raw(jen.Struct(pair[0]))
			ref := jen.Id("F")
			for k := 1; k < n; k++ {
				ref.Op("*")
			}
			exp := jh.Raw(jen.Struct(ref.Int().Tag(want)))
			r.Eval(1)
			r.Distinct(fmt.Sprintf("tag-on-clone-%d-%d", n, i))
			if got.Key() != exp.Key() {
				r.Violate(ev.Violation{Signature: "c17:tag-on-clone", What: fmt.Sprintf("field template of %d items cloned twice with different tags: clone %d renders %q, want %q", n+1, i, got, exp), Case: ev.JSON(c17Case{Keys: []string{"shared-map"}})})
			}
		}
	}
	// (l) one map handed to Tag for two fields; the second field gets a further Tag call: the first
	// field shows exactly the map's original content, and the caller's map is untouched
	{
		m := map[string]string{"db": "id", "json": "id"}
		a := jen.Id("A").String().Tag(m)
		jen.Id("B").Int().Tag(m).Tag(map[string]string{"json": "b", "xml": "b"})
		got := jh.Raw(jen.Struct(a))
		want := jh.Raw(jen.Struct(jen.Id("A").String().Tag(map[string]string{"db": "id", "json": "id"})))
		r.Eval(1)
		r.Distinct("shared-map-second-tag-call")
		if got.Key() != want.Key() || len(m) != 2 || m["json"] != "id" {
			r.Violate(ev.Violation{Signature: "c17:second-Tag-call-on-another-field", What: fmt.Sprintf("field A with Tag(m) renders %q after field B got Tag(m).Tag(extra), want %q; the caller's map is now %v", got, want, m), Case: ev.JSON(c17Case{Keys: []string{"shared-map"}})})
		}
	}
	// (j) tags rendered stand-alone (Statement.GoString / Render) straight after fragment renders that
	// failed in gofmt or panicked and were recovered: the literal must be the one a File renders
	{
		maps := []map[string]string{{"json": "a"}, {"a": "1", "b": "2"}, {}, {"k": "with `backquote`"}, {"k": "line\nbreak", "z": "\xff"}, nil, {"json": "name,omitempty", "xml": "x"}}
		for round := 0; round < 3; round++ {
			for mi, m := range maps {
				// a fragment that gofmt rejects (a tagged field outside a struct), and one that panics
				jh.Catch(func() (string, error) { return jen.Id("A").String().Tag(m).GoString(), nil })
				jh.Catch(func() (string, error) { return jen.Id("A").Op("=").Lit(struct{ X int }{1}).Tag(m).GoString(), nil })
				st := jen.Type().Id("T").Struct(jen.Id("F").Int().Tag(m), jen.Id("G").String())
				got := jh.Catch(func() (string, error) { return st.GoString(), nil })
				f := jen.NewFile("p")
				f.Add(jen.Type().Id("T").Struct(jen.Id("F").Int().Tag(m), jen.Id("G").String()))
				want := jh.RenderFile(f)
				r.Eval(1)
				r.Distinct(fmt.Sprintf("after-failures-%d-%d", round, mi))
				if !got.OK() || !want.OK() || strings.TrimSpace(got.Out) != strings.TrimSpace(strings.TrimPrefix(want.Out, "package p\n")) {
					r.Violate(ev.Violation{Signature: "c17:tag-after-failed-fragment-renders", What: fmt.Sprintf("struct with Tag(%q) rendered stand-alone after failing fragment renders: %q; in a File: %q", m, got, want), Case: ev.JSON(c17Case{Keys: []string{"shared-map"}})})
				}
			}
		}
	}
	// (g) many keys and long values
	for _, nk := range []int{5, 9, 17, 40} {
		m := map[string]string{}
		for i := 0; i < nk; i++ {
			m[fmt.Sprintf("k%d", (i*7)%nk)] = strings.Repeat(c12Units[i%len(c12Units)], 1+i*13)
		}
		one(m, false)
		one(m, true)
	}
	// (f) one tag map changed between renders that share a File (Tag keeps the caller's map):
	// every render must show the map's CURRENT content, as a fresh File does
	for _, nf := range []bool{false, true} {
		shared := jen.NewFile("p")
		shared.NoFormat = nf
		m1 := map[string]string{"json": "alpha,omitempty", "db": "a"}
		var decls []func() *jen.Statement
		step := func(desc string) {
			fresh := jen.NewFile("p")
			fresh.NoFormat = nf
			for _, d := range decls {
				fresh.Add(d())
			}
			got, want := jh.RenderFile(shared), jh.RenderFile(fresh)
			r.Eval(1)
			r.Distinct(fmt.Sprintf("shared-map-%v-%s", nf, desc))
			if got.Key() != want.Key() {
				r.Violate(ev.Violation{Signature: "c17:map-changed-between-renders", What: fmt.Sprintf("%s (NoFormat=%v): the File renders\n%s\nbut a fresh File with the same declarations renders\n%s", desc, nf, got, want),
					Case: ev.JSON(c17Case{Keys: []string{"shared-map"}}), Detail: desc})
			}
		}
		add := func(name string) {
			d := func() *jen.Statement { return jen.Type().Id(name).Struct(jen.Id("F").Int().Tag(m1)) }
			decls = append(decls, d)
			shared.Add(d())
		}
		add("A")
		step("one struct tagged with map m")
		m1["json"] = "beta"
		step("after m[json] changed")
		add("B")
		step("after a second struct tagged with the same map was added")
		m1["db"], m1["json"] = "zz", "gamma"
		add("C")
		step("after two values changed and a third struct was added")
		delete(m1, "db")
		m1["yaml"] = "y"
		step("after a key was replaced (same size)")
	}
	m := map[string]string{"json": "a\"b`c\n", "x-y": "\xff", "a": ""}
	cp := map[string]string{}
	for k, v := range m {
		cp[k] = v
	}
	r.Sample(map[string]any{"Tag": m, "renders": jh.Raw(jen.Id("F").Int().Tag(cp)).Out})
	r.Sample(map[string]any{"Tag": map[string]string{"json": "n,omitempty"}, "renders": jh.Raw(jen.Id("F").Int().Tag(map[string]string{"json": "n,omitempty"})).Out})
}

func replayC17(raw json.RawMessage) (bool, string) {
	var c c17Case
	if err := json.Unmarshal(raw, &c); err != nil {
		return true, "bad case"
	}
	if len(c.Keys) == 1 && c.Keys[0] == "shared-map" {
		return true, "the shared-map sequence is replayed by running the check"
	}
	msg := c17Check(c.tagMap(), c.Formatted)
	return msg == "", fmt.Sprintf("Tag(%q): %s", c.tagMap(), msg)
}
