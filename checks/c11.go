package checks

import (
	"encoding/json"
	"fmt"
	"go/ast"
	"go/constant"
	"go/parser"
	"go/token"
	"go/types"
	"math"
	"reflect"
	"strconv"
	"strings"

	"github.com/dave/jennifer/jen"

	"verif/internal/ev"
	"verif/internal/explore"
	"verif/internal/jh"
	"verif/internal/norm"
)

// C11: numeric and boolean literals preserve value and type.

func init() {
	register(&Check{ID: "C11", Level: "exploration", Run: runC11, Replay: replayC11})
}

type c11Case struct {
	Type string `json:"type"`
	Bits uint64 `json:"bits"`              // integer value / IEEE bits / bool
	Im   uint64 `json:"im_bits,omitempty"` // imaginary part bits for complex
}

func (c c11Case) value() any {
	switch c.Type {
	case "bool":
		return c.Bits != 0
	case "int":
		return int(int64(c.Bits))
	case "int8":
		return int8(c.Bits)
	case "int16":
		return int16(c.Bits)
	case "int32":
		return int32(c.Bits)
	case "int64":
		return int64(c.Bits)
	case "uint":
		return uint(c.Bits)
	case "uint8":
		return uint8(c.Bits)
	case "uint16":
		return uint16(c.Bits)
	case "uint32":
		return uint32(c.Bits)
	case "uint64":
		return uint64(c.Bits)
	case "uintptr":
		return uintptr(c.Bits)
	case "float32":
		return math.Float32frombits(uint32(c.Bits))
	case "float64":
		return math.Float64frombits(c.Bits)
	case "complex64":
		return complex(math.Float32frombits(uint32(c.Bits)), math.Float32frombits(uint32(c.Im)))
	case "complex128":
		return complex(math.Float64frombits(c.Bits), math.Float64frombits(c.Im))
	}
	panic("c11: unknown type " + c.Type)
}

var c11Basic = map[string]*types.Basic{
	"bool": types.Typ[types.Bool], "int": types.Typ[types.Int], "int8": types.Typ[types.Int8], "int16": types.Typ[types.Int16],
	"int32": types.Typ[types.Int32], "int64": types.Typ[types.Int64], "uint": types.Typ[types.Uint], "uint8": types.Typ[types.Uint8],
	"uint16": types.Typ[types.Uint16], "uint32": types.Typ[types.Uint32], "uint64": types.Typ[types.Uint64], "uintptr": types.Typ[types.Uintptr],
	"float32": types.Typ[types.Float32], "float64": types.Typ[types.Float64], "complex64": types.Typ[types.Complex64], "complex128": types.Typ[types.Complex128],
}

var c11Bare = map[string]bool{"bool": true, "int": true, "float64": true, "complex128": true}

func c11Render(v any, viaFunc bool) jh.Outcome {
	if viaFunc {
		return jh.Raw(jen.LitFunc(func() interface{} { return v }))
	}
	return jh.Raw(jen.Lit(v))
}

// floatEq compares a constant, rounded to float64, with f (0 == -0: Go constants have no negative zero).
func c11FloatEq(c constant.Value, f float64) bool {
	c = constant.ToFloat(c)
	if c.Kind() != constant.Float {
		return false
	}
	g, _ := constant.Float64Val(c)
	return g == f
}

// c11Check judges the text rendered for v; "" = holds.
func c11Check(typ string, v any, text string) string {
	tv, err := types.Eval(token.NewFileSet(), nil, token.NoPos, text)
	if err != nil {
		return fmt.Sprintf("%q is not a single valid expression: %v", text, err)
	}
	if tv.Value == nil {
		return fmt.Sprintf("%q is not a constant expression", text)
	}
	want := c11Basic[typ]
	if c11Bare[typ] {
		if !types.Identical(types.Default(tv.Type), want) {
			return fmt.Sprintf("%q has default type %v, want %v", text, types.Default(tv.Type), want)
		}
	} else if !types.Identical(tv.Type, want) {
		return fmt.Sprintf("%q has type %v, want %v", text, tv.Type, want)
	}
	ok := false
	switch x := v.(type) {
	case bool:
		ok = tv.Value.Kind() == constant.Bool && constant.BoolVal(tv.Value) == x
	case float32:
		ok = c11FloatEq(tv.Value, float64(x))
	case float64:
		ok = c11FloatEq(tv.Value, x)
	case complex64:
		ok = c11FloatEq(constant.Real(tv.Value), float64(real(x))) && c11FloatEq(constant.Imag(tv.Value), float64(imag(x)))
	case complex128:
		ok = c11FloatEq(constant.Real(tv.Value), real(x)) && c11FloatEq(constant.Imag(tv.Value), imag(x))
	default:
		rv := reflect.ValueOf(v)
		c := constant.ToInt(tv.Value)
		if c.Kind() == constant.Int {
			if rv.CanInt() {
				i, exact := constant.Int64Val(c)
				ok = exact && i == rv.Int()
			} else {
				u, exact := constant.Uint64Val(c)
				ok = exact && u == rv.Uint()
			}
		}
	}
	if !ok {
		return fmt.Sprintf("%q has value %v, want %v", text, tv.Value.ExactString(), v)
	}
	return ""
}

// c11Fast32 is the oracle of the complete float32 sweep: the text must be float32(<one number
// token>) and the number, rounded to float32 as a Go conversion does, must be v.
func c11Fast32(v float32, text string) string {
	if !strings.HasPrefix(text, "float32(") || !strings.HasSuffix(text, ")") {
		return fmt.Sprintf("%q is not a float32 conversion", text)
	}
	in := text[len("float32(") : len(text)-1]
	num := strings.TrimPrefix(in, "-")
	toks, _, nerr := jh.Scan(num, false)
	// a lone number scans as the number plus the automatic semicolon
	if nerr != 0 || len(toks) != 2 || (toks[0].Tok != token.FLOAT && toks[0].Tok != token.INT) || toks[0].Lit != num {
		return fmt.Sprintf("%q: %q is not a single number token", text, num)
	}
	g, err := strconv.ParseFloat(in, 32)
	if err != nil || float32(g) != v {
		return fmt.Sprintf("%q has value %v, want %v", text, g, v)
	}
	return ""
}

// c11SameExpr: two expression texts denote the same syntax tree up to redundant parentheses and
// literal spelling (an implementation may legitimately drop parentheses it knows to be redundant).
func c11SameExpr(a, b string) bool {
	ea, err1 := parser.ParseExpr(a)
	eb, err2 := parser.ParseExpr(b)
	return err1 == nil && err2 == nil && norm.Expr(ea) == norm.Expr(eb)
}

// c11Importer declares any imported package under the given name, exporting var V int.
type c11Importer struct{ name string }

func (m c11Importer) Import(path string) (*types.Package, error) {
	pkg := types.NewPackage(path, m.name)
	pkg.Scope().Insert(types.NewVar(token.NoPos, pkg, "V", types.Typ[types.Int]))
	pkg.MarkComplete()
	return pkg, nil
}

func runC11(r *ev.Recorder) {
	if r.Tier == ev.Thorough {
		r.SetDeadline(40 * 60 * 1e9)
	} else {
		r.SetDeadline(4 * 60 * 1e9)
	}
	r.Rule = "Complete domains: bool, all int8/uint8/int16/uint16 values (thorough: all 2^32 float32 bit patterns, non-finite skipped). " +
		"Complete structured families for wider types: +-2^k+d (|d|<=2), all values with <=2 set bits, type limits +-1; float64/float32: every exponent x 24 mantissa patterns x sign, " +
		"every m*10^k (m in 1..999, k in -330..310 resp. -50..40), subnormal extremes, +-0; complex: all pairs of a float pool. Each via Lit and (structured families) LitFunc. " +
		"Every ordered pair of 29 values of all types (several with the same numeric value, several negative) inside 12 contexts (after unary -, +, ^, &, <-; Call, Parens, Custom groups with operator separators, Index, Values, Dict, after LitRune/LitByte) must render each literal exactly as alone. Every typed literal in a File that imports a package whose last path element, ImportName or ImportAlias is the literal's type name (literal first / import first): the file type-checks and the constant has exactly its type. Oracle: go/types evaluates the rendered text as ONE constant expression; typed literals must have exactly the type, bare ones the default type, and the value (converted to the type) must equal the input. " +
		"distinct_nontrivial = distinct rendered texts"
	r.Assume = []string{"go/types + go/constant constant evaluation and conversion rounding of the installed toolchain",
		"-0.0 is compared with == (Go constants have no negative zero)",
		"32/64-bit values outside the structured families are outside the bound (float32 is complete in the thorough tier)"}

	var cases []c11Case
	add := func(t string, bits uint64) { cases = append(cases, c11Case{Type: t, Bits: bits}) }
	add("bool", 0)
	add("bool", 1)
	for i := 0; i < 256; i++ {
		add("int8", uint64(int64(int8(i))))
		add("uint8", uint64(i))
	}
	for i := 0; i < 65536; i++ {
		add("int16", uint64(int64(int16(i))))
		add("uint16", uint64(i))
	}
	// structured integers
	ints := map[uint64]bool{}
	for k := 0; k < 64; k++ {
		for d := int64(-2); d <= 2; d++ {
			ints[uint64(int64(1)<<k+d)] = true
			ints[uint64(-(int64(1)<<k)+d)] = true
		}
		for j := 0; j < 64; j++ {
			ints[uint64(1)<<k|uint64(1)<<j] = true
			ints[^(uint64(1)<<k | uint64(1)<<j)] = true
		}
	}
	for _, x := range []uint64{0, 1, math.MaxUint64, math.MaxInt64, 1 << 63, math.MaxInt32, 1 << 31, math.MaxUint32, 1 << 32, 9007199254740993, 1000000, 999999999999} {
		for d := uint64(0); d < 3; d++ {
			ints[x+d] = true
			ints[x-d] = true
		}
	}
	for x := range ints {
		add("int", x)
		add("int64", x)
		add("uint", x)
		add("uint64", x)
		add("uintptr", x)
		add("int32", uint64(int64(int32(x))))
		add("uint32", uint64(uint32(x)))
	}
	// structured floats
	mant64 := []uint64{0, 1, 2, 3, 1 << 51, 1<<52 - 1, 1<<52 - 2, 0x5555555555555, 0xAAAAAAAAAAAAA, 1 << 26, 1<<26 - 1, 1<<26 + 1, 0x8000000000001,
		0x4000000000000, 0xC000000000000, 0xFFFFF00000000, 0x00000FFFFFFFF, 0x123456789ABCD, 0x999999999999A, 0x3333333333333, 1 << 29, 1 << 30, 7, 0xF}
	f64 := map[uint64]bool{}
	for e := uint64(0); e <= 2046; e++ {
		for _, m := range mant64 {
			f64[e<<52|m] = true
		}
	}
	for m := 1; m <= 999; m++ {
		for k := -330; k <= 310; k++ {
			f, err := strconv.ParseFloat(fmt.Sprintf("%de%d", m, k), 64)
			if err == nil && !math.IsInf(f, 0) {
				f64[math.Float64bits(f)] = true
			}
		}
	}
	for _, f := range []float64{0, 1, 10, 100, 1e20, 1e21, 1e22, 123456789, 1e-4, 1e-5, 1e-6, 0.5, 0.1, 1.0 / 3, math.MaxFloat64, math.SmallestNonzeroFloat64, math.Pi, 1 << 53, 1<<53 + 2, 4.9e-324, 2.2250738585072014e-308} {
		f64[math.Float64bits(f)] = true
		f64[math.Float64bits(math.Nextafter(f, math.Inf(1)))] = true
		f64[math.Float64bits(math.Nextafter(f, math.Inf(-1)))] = true
	}
	for b := range f64 {
		if f := math.Float64frombits(b); !math.IsInf(f, 0) && !math.IsNaN(f) {
			add("float64", b)
			add("float64", b|1<<63)
		}
	}
	f32 := map[uint32]bool{}
	mant32 := []uint32{0, 1, 2, 3, 1 << 22, 1<<23 - 1, 1<<23 - 2, 0x555555, 0x2AAAAA, 1 << 11, 1<<11 - 1, 1<<11 + 1, 0x400001, 0x200000, 0x600000, 0x7FF000, 0x000FFF, 0x123456, 0x4CCCCD, 0x199999, 1 << 13, 1 << 14, 7, 0xF}
	for e := uint32(0); e <= 254; e++ {
		for _, m := range mant32 {
			f32[e<<23|m] = true
		}
	}
	for m := 1; m <= 999; m++ {
		for k := -50; k <= 40; k++ {
			f, err := strconv.ParseFloat(fmt.Sprintf("%de%d", m, k), 32)
			if err == nil && !math.IsInf(f, 0) {
				f32[math.Float32bits(float32(f))] = true
			}
		}
	}
	for b := range f32 {
		add("float32", uint64(b))
		add("float32", uint64(b|1<<31))
	}
	// complex
	pool := []float64{0, math.Copysign(0, -1), 1, -1, 2, 0.5, -0.5, 0.1, 1e21, 1e20, -1e21, 1e-5, 1e-4, 1e-7, 100, 1e6, 123456789, math.MaxFloat64, -math.MaxFloat64,
		math.SmallestNonzeroFloat64, math.Pi, -math.E, 1.0 / 3, 1 << 53, 1e100, 1e-100, 3, 10, 1e15, 1e16, 1e17, 0.25, 7, -7, 1e5, 1e-6, 2.5, 1e22, 65536, 16777217}
	for _, a := range pool {
		for _, b := range pool {
			cases = append(cases, c11Case{Type: "complex128", Bits: math.Float64bits(a), Im: math.Float64bits(b)})
			fa, fb := float32(a), float32(b)
			if !math.IsInf(float64(fa), 0) && !math.IsInf(float64(fb), 0) {
				cases = append(cases, c11Case{Type: "complex64", Bits: uint64(math.Float32bits(fa)), Im: uint64(math.Float32bits(fb))})
			}
		}
	}

	fail := func(c c11Case, via string, msg string) {
		r.Violate(ev.Violation{Signature: "c11:" + c.Type, What: fmt.Sprintf("%s(%s %v): %s", via, c.Type, c.value(), msg), Case: ev.JSON(c), Detail: msg})
	}
	perType := map[string]int64{}
	for _, c := range cases {
		perType[c.Type]++
	}
	r.Note("cases_per_type", perType)

	explore.Range(int64(len(cases)), 0, r.Expired, func(_ int, i int64) {
		c := cases[i]
		v := c.value()
		o := c11Render(v, false)
		r.Eval(1)
		if !o.OK() {
			fail(c, "Lit", "render failed: "+o.String())
			return
		}
		r.Distinct(o.Out)
		if msg := c11Check(c.Type, v, o.Out); msg != "" {
			fail(c, "Lit", msg)
		}
		o2 := c11Render(v, true)
		r.Eval(1)
		if o2.Key() != o.Key() {
			fail(c, "LitFunc", fmt.Sprintf("LitFunc renders %q, Lit renders %q", o2, o))
		}
		if i%40009 == 0 && r.WantSample() {
			r.Sample(map[string]any{"type": c.Type, "value": fmt.Sprint(v), "renders": o.Out})
		}
	})

	// LitFunc with a stateful function: called exactly once, and the value rendered is the one
	// that call returned
	for ti, vals := range [][]any{{1, 2, 3}, {int8(5), "s", 2.5}, {uint8(200), uint8(201)}, {true, false}, {1.5, int64(7)}} {
		n := 0
		fn := func() interface{} { v := vals[n%len(vals)]; n++; return v }
		st := jen.LitFunc(fn)
		after := n
		got := jh.Raw(st)
		jh.Raw(st)
		want := jh.Raw(jen.Lit(vals[0]))
		r.Eval(1)
		r.Distinct(fmt.Sprintf("stateful-litfunc-%d", ti))
		if after != 1 || n != 1 || got.Key() != want.Key() {
			r.Violate(ev.Violation{Signature: "c11:litfunc-stateful", What: fmt.Sprintf("LitFunc with a function returning %v in turn: called %d times while building, %d times in all, renders %q, want %q", vals, after, n, got, want),
				Case: ev.JSON(c11Case{Type: "litfunc-stateful"}), Detail: "LitFunc must call its function exactly once, when called"})
		}
	}

	// a literal inside a larger expression renders exactly as it does alone (compositionality), and
	// literals of different types with the same numeric value in ONE File do not influence each other
	{
		vals := []any{true, 65, int8(65), int16(65), int32(65), int64(65), uint(65), uint8(65), uint16(65), uint32(65), uint64(65), uintptr(65), float32(65), 65.0, complex64(65), complex128(65),
			1.5, -2.5, -1, int64(-7), -1e21, float32(-0.5), complex128(1 + 2i), complex128(-1i), complex64(2 - 3i), complex128(0.5 + 4i), int32(-1), int32(0xD800), int64(1) << 40}
		alone := func(v any) string { return jh.Raw(jen.Lit(v)).Out }
		contexts := []struct {
			name string
			mk   func(items ...jen.Code) jen.Code
		}{
			{"Call", func(items ...jen.Code) jen.Code { return jen.Id("f").Call(items...) }},
			{"Parens", func(items ...jen.Code) jen.Code { return jen.Parens(items[0]).Op("*").Parens(items[1]) }},
			{"Custom(( ) *)", func(items ...jen.Code) jen.Code {
				return jen.Custom(jen.Options{Open: "(", Close: ")", Separator: "*"}, items...)
			}},
			{"Custom(( ) -)", func(items ...jen.Code) jen.Code {
				return jen.Custom(jen.Options{Open: "(", Close: ")", Separator: "-"}, items...)
			}},
			{"Index", func(items ...jen.Code) jen.Code { return jen.Id("a").Index(items...) }},
			{"Values", func(items ...jen.Code) jen.Code { return jen.Index().Id("T").Values(items...) }},
			{"Op chain", func(items ...jen.Code) jen.Code { return jen.Add(items[0]).Op("/").Add(items[1]) }},
			{"Dict", func(items ...jen.Code) jen.Code {
				return jen.Map(jen.Id("K")).Id("V").Values(jen.Dict{items[0]: items[1]})
			}},
			{"unary minus", func(items ...jen.Code) jen.Code { return jen.Op("-").Add(items[0]).Op("-").Op("-").Add(items[1]) }},
			{"unary plus and xor", func(items ...jen.Code) jen.Code { return jen.Op("+").Add(items[0]).Op("+").Op("^").Add(items[1]) }},
			{"address-of and receive", func(items ...jen.Code) jen.Code { return jen.Op("&").Add(items[0]).Op("<-").Add(items[1]) }},
			{"LitRune first", func(items ...jen.Code) jen.Code {
				return jen.Id("g").Call(jen.LitRune(65), jen.LitByte(65), items[0], items[1])
			}},
		}
		for _, cx := range contexts {
			skeleton := jh.Raw(cx.mk(jen.Id("HOLE0"), jen.Id("HOLE1")))
			for i, a := range vals {
				for j, b := range vals {
					got := jh.Raw(cx.mk(jen.Lit(a), jen.Lit(b)))
					want := strings.NewReplacer("HOLE0", alone(a), "HOLE1", alone(b)).Replace(skeleton.Out)
					r.Eval(1)
					r.Distinct(fmt.Sprintf("ctx-%s-%d-%d", cx.name, i, j))
					if !got.OK() || (got.Out != want && !c11SameExpr(got.Out, want)) {
						r.Violate(ev.Violation{Signature: "c11:literal-in-context:" + cx.name, What: fmt.Sprintf("Lit(%T %v) and Lit(%T %v) inside %s render %q, want %q (each literal exactly as it renders alone)", a, a, b, b, cx.name, got, want),
							Case: ev.JSON(c11Case{Type: "litfunc-stateful"}), Detail: "a literal's text changed because of its surroundings or of another literal in the same File"})
					}
				}
			}
		}
	}

	// typed literals in a File that also imports a package whose guessed, stated or requested name is
	// the literal's type name: the file must type-check and the literal keep exactly its type
	{
		typed := []any{int8(1), int16(1), int32(1), int64(1), uint(1), uint8(1), uint16(1), uint32(1), uint64(1), uintptr(1), float32(1), complex64(1), 1, 1.5, true, complex128(1i)}
		for _, v := range typed {
			tn := reflect.TypeOf(v).String()
			for place := 0; place < 3; place++ {
				for _, litFirst := range []bool{false, true} {
					path := "x.y/" + tn
					f := jen.NewFile("p")
					switch place {
					case 1:
						path = "x.y/q"
						f.ImportName(path, tn)
					case 2:
						path = "x.y/q"
						f.ImportAlias(path, tn)
					}
					ref := jen.Var().Id("_").Op("=").Qual(path, "V")
					lit := jen.Const().Id("L").Op("=").Lit(v)
					if litFirst {
						f.Add(lit)
						f.Add(ref)
					} else {
						f.Add(ref)
						f.Add(lit)
					}
					o := jh.RenderFile(f)
					r.Eval(1)
					desc := fmt.Sprintf("Lit(%s(...)) in a File importing %q (%s %s; literal first: %v)", tn, path, []string{"last path element", "ImportName", "ImportAlias"}[place], tn, litFirst)
					r.Distinct(desc)
					msg := ""
					if !o.OK() {
						msg = "render failed: " + o.String()
					} else {
						fset := token.NewFileSet()
						af, err := parser.ParseFile(fset, "out.go", o.Out, 0)
						if err != nil {
							msg = "output does not parse: " + err.Error()
						} else {
							conf := types.Config{Importer: c11Importer{name: tn}, Error: func(error) {}}
							pkg, err := conf.Check("p", fset, []*ast.File{af}, nil)
							if err != nil {
								msg = "type error: " + err.Error()
							} else if l, ok := pkg.Scope().Lookup("L").(*types.Const); !ok {
								msg = "L is no constant"
							} else if c11Bare[tn] && !types.Identical(types.Default(l.Type()), c11Basic[tn]) || !c11Bare[tn] && !types.Identical(l.Type(), c11Basic[tn]) {
								msg = fmt.Sprintf("L has type %v, want %s", l.Type(), tn)
							}
						}
						if msg != "" {
							msg += "\n" + o.Out
						}
					}
					if msg != "" {
						r.Violate(ev.Violation{Signature: "c11:type-name-shadowed:" + tn, What: desc + ": " + jh.Short(msg, 200), Case: ev.JSON(c11Case{Type: "litfunc-stateful"}), Detail: msg})
					}
				}
			}
		}
	}

	// a literal directly after a prefix operator or a keyword in the same statement (no group in
	// between): the operator and the literal's own sign must stay two tokens
	{
		vals := []any{1, -1, 0, -7, 1.5, -2.5, -1e21, 1e-7, -0.0001, int8(-3), int64(-9), float32(-0.5), uint8(2), complex128(-1i), complex128(-2 - 3i), complex64(-1), true, false}
		for _, op := range []string{"-", "+", "^", "!", "&", "*", "<-"} {
			for _, kw := range []bool{false, true} {
				for _, v := range vals {
					st := jen.Op(op).Lit(v)
					want := op + " " + jh.Raw(jen.Lit(v)).Out
					if kw {
						st = jen.Return().Op(op).Lit(v).Op(op).Op(op).Lit(v)
						want = "(" + want + ") " + op + " (" + want + ")"
					}
					got := jh.Raw(st)
					if kw {
						got.Out = strings.TrimPrefix(got.Out, "return ")
					}
					if op == "!" || op == "&" || op == "*" || op == "<-" {
						if kw {
							continue // not a binary operator
						}
					}
					r.Eval(1)
					r.Distinct(fmt.Sprintf("prefix-%s-%v-%v", op, kw, v))
					if !got.OK() || !c11SameExpr(got.Out, want) {
						r.Violate(ev.Violation{Signature: "c11:literal-after-operator:" + op, What: fmt.Sprintf("Op(%q).Lit(%T %v) (after a keyword and twice: %v) renders %q, which is not the expression %q", op, v, v, kw, got, want),
							Case: ev.JSON(c11Case{Type: "litfunc-stateful"}), Detail: "a literal fused with the operator before it"})
					}
				}
			}
		}
	}

	// (numbered names) N packages whose name is the literal type's name without its size (int, uint,
	// float, complex) in one File with a literal of the type <name><N>: the N-th numbered import
	// name must step over the type name
	for _, tn := range []string{"int8", "int16", "int32", "int64", "uint8", "uint16", "uint32", "uint64", "float32", "float64", "complex64", "complex128"} {
		base := strings.TrimRight(tn, "0123456789")
		n, _ := strconv.Atoi(tn[len(base):])
		var v any
		for _, x := range []any{int8(1), int16(1), int32(1), int64(1), uint8(1), uint16(1), uint32(1), uint64(1), float32(1), 1.5, complex64(1), complex128(1i)} {
			if reflect.TypeOf(x).String() == tn {
				v = x
			}
		}
		f := jen.NewFile("p")
		for i := 0; i <= n+1; i++ {
			f.Var().Id("_").Op("=").Qual(fmt.Sprintf("m%d.x/%s", i, base), "V")
		}
		f.Const().Id("L").Op("=").Lit(v)
		o := jh.RenderFile(f)
		r.Eval(1)
		desc := fmt.Sprintf("Lit(%s(...)) in a File importing %d packages called %s", tn, n+2, base)
		r.Distinct(desc)
		msg := ""
		if !o.OK() {
			msg = "render failed: " + o.String()
		} else {
			fset := token.NewFileSet()
			af, err := parser.ParseFile(fset, "out.go", o.Out, 0)
			if err != nil {
				msg = "output does not parse: " + err.Error()
			} else {
				conf := types.Config{Importer: c11Importer{name: base}, Error: func(error) {}}
				pkg, err := conf.Check("p", fset, []*ast.File{af}, nil)
				if err != nil {
					msg = "type error: " + err.Error()
				} else if l, ok := pkg.Scope().Lookup("L").(*types.Const); !ok || !(c11Bare[tn] && types.Identical(types.Default(l.Type()), c11Basic[tn]) || !c11Bare[tn] && types.Identical(l.Type(), c11Basic[tn])) {
					msg = fmt.Sprintf("L is not a constant of type %s", tn)
				}
			}
		}
		if msg != "" {
			r.Violate(ev.Violation{Signature: "c11:type-name-taken-by-numbered-import:" + tn, What: desc + ": " + jh.Short(msg, 200), Case: ev.JSON(c11Case{Type: "litfunc-stateful"}), Detail: msg + "\n" + jh.Short(o.Out, 3000)})
		}
	}

	// non-finite floats are outside Lit's contract, but LitFunc must do whatever Lit does with the
	// value its function returns (same text, or both fail)
	for _, v := range []any{math.Inf(1), math.Inf(-1), math.NaN(), float32(math.Inf(1)), float32(math.Inf(-1)), float32(math.NaN()), complex(math.Inf(1), 0), complex64(complex(0, math.Inf(-1)))} {
		v := v
		a := jh.CatchOutcome(func() jh.Outcome { return jh.Raw(jen.Var().Id("x").Op("=").Lit(v)) })
		b := jh.CatchOutcome(func() jh.Outcome { return jh.Raw(jen.Var().Id("x").Op("=").LitFunc(func() interface{} { return v })) })
		fa := jh.CatchOutcome(func() jh.Outcome { f := jen.NewFile("p"); f.Var().Id("x").Op("=").Lit(v); return jh.RenderFile(f) })
		fb := jh.CatchOutcome(func() jh.Outcome {
			f := jen.NewFile("p")
			f.Var().Id("x").Op("=").LitFunc(func() interface{} { return v })
			return jh.RenderFile(f)
		})
		r.Eval(2)
		r.Distinct(fmt.Sprintf("non-finite-%T-%v", v, v))
		if a.OK() != b.OK() || (a.OK() && a.Out != b.Out) || fa.OK() != fb.OK() || (fa.OK() && fa.Out != fb.Out) {
			r.Violate(ev.Violation{Signature: "c11:litfunc-differs-from-lit", What: fmt.Sprintf("Lit(%T %v) renders %q (in a formatted File: %q), LitFunc returning the same value %q (%q)", v, v, a, jh.Short(fa.String(), 120), b, jh.Short(fb.String(), 120)),
				Case: ev.JSON(c11Case{Type: "litfunc-stateful"}), Detail: "LitFunc behaves identically on the value its function returns"})
		}
	}

	// literals rendered stand-alone (GoString) straight after fragment renders that gofmt rejected or
	// that panicked: exactly the text of the literal alone
	for round := 0; round < 3; round++ {
		for _, v := range []any{5, int8(-3), true, 1.5, uint64(7), complex64(1i), float32(2)} {
			jh.Catch(func() (string, error) { return jen.Lit(1).Op("+").GoString(), nil })
			jh.Catch(func() (string, error) { return jen.Id("x").Op("+").Lit(struct{ A int }{1}).GoString(), nil })
			got := jh.Catch(func() (string, error) { return jen.Lit(v).GoString(), nil })
			gotFn := jh.Catch(func() (string, error) {
				return jen.Parens(jen.LitFunc(func() interface{} { return v })).GoString(), nil
			})
			want := jh.Raw(jen.Lit(v)).Out
			r.Eval(2)
			r.Distinct(fmt.Sprintf("after-failed-fragment-%d-%T", round, v))
			if !got.OK() || !c11SameExpr(got.Out, want) || !gotFn.OK() || !c11SameExpr(gotFn.Out, want) {
				r.Violate(ev.Violation{Signature: "c11:literal-after-failed-fragment-renders", What: fmt.Sprintf("Lit(%T %v).GoString() after failing fragment renders gives %q, Parens(LitFunc) %q, want %q", v, v, got, gotFn, want),
					Case: ev.JSON(c11Case{Type: "litfunc-stateful"}), Detail: "state left behind by a failed render"})
			}
		}
	}

	// a typed literal directly after `const a T =` / `var a T =`, the expression then continued:
	// every literal keeps its conversion (it must stay a typed constant)
	for _, v := range []any{int8(5), int64(7), uint8(9), uint32(3), float32(7), float32(0.5), complex64(2), uintptr(1), 7, 2.5, true} {
		tn := reflect.TypeOf(v).String()
		m := reflect.ValueOf(&jen.Statement{}).MethodByName(strings.ToUpper(tn[:1]) + tn[1:])
		if !m.IsValid() {
			continue
		}
		for _, kw := range []string{"const", "var"} {
			st := jen.Id("a")
			if kw == "const" {
				st = jen.Const().Id("a")
			} else {
				st = jen.Var().Id("a")
			}
			reflect.ValueOf(st).MethodByName(strings.ToUpper(tn[:1]) + tn[1:]).Call(nil)
			st.Op("=").Lit(v)
			alone := jh.Raw(jen.Lit(v)).Out
			for _, cont := range []bool{false, true} {
				full := st.Clone()
				want := kw + " a " + tn + " = " + alone
				if cont && tn != "bool" {
					full.Op("/").Lit(v)
					want += " / " + alone
				}
				got := jh.Raw(full)
				r.Eval(1)
				r.Distinct(fmt.Sprintf("typed-decl-%s-%s-%v", kw, tn, cont))
				if !got.OK() || strings.Join(strings.Fields(got.Out), " ") != strings.Join(strings.Fields(want), " ") {
					r.Violate(ev.Violation{Signature: "c11:literal-after-typed-declaration:" + tn, What: fmt.Sprintf("%s a %s = Lit(%s %v) (continued: %v) renders %q, want %q", kw, tn, tn, v, cont, got, want),
						Case: ev.JSON(c11Case{Type: "litfunc-stateful"}), Detail: "the literal's text depends on what precedes it"})
				}
			}
		}
	}

	// one argument slice holding a nil entry spread into two constructs, the first rendered before
	// the second is built: both hold exactly the literals of the slice
	{
		items := []jen.Code{jen.Lit(int8(-128)), nil, jen.Lit(2.5), jen.Lit(float32(0.1))}
		a := jen.Index().Any().Values(items...)
		first := jh.Raw(a)
		b := jen.Index().Any().Values(items...)
		second := jh.Raw(b)
		r.Eval(2)
		r.Distinct("nil-holding-slice-reused")
		if first.Key() != second.Key() || !first.OK() {
			r.Violate(ev.Violation{Signature: "c11:literals-of-a-reused-slice", What: fmt.Sprintf("Values(items...) renders %q; built again from the same slice after that render: %q", first, second), Case: ev.JSON(c11Case{Type: "litfunc-stateful"}), Detail: "rendering rewrote the caller's slice"})
		}
	}

	// literals appended to statements built by Add(parts...) from ONE slice with spare capacity
	{
		vals := []any{int8(-128), uint8(255), 1.5, true, 7, complex64(1 + 2i), int64(9), "s"}
		for extra := 0; extra <= 3; extra++ {
			for n := 1; n <= 5; n++ {
				parts := make([]jen.Code, 0, n+extra)
				head := ""
				for i := 0; i < n; i++ {
					parts = append(parts, jen.Id(fmt.Sprintf("p%d", i)))
					head += fmt.Sprintf("p%d ", i)
				}
				var sts []*jen.Statement
				for _, v := range vals {
					sts = append(sts, jen.Add(parts...).Lit(v))
				}
				for i, st := range sts {
					got, want := jh.Raw(st), head+jh.Raw(jen.Lit(vals[i])).Out
					r.Eval(1)
					r.Distinct(fmt.Sprintf("add-spread-%d-%d-%d", extra, n, i))
					if !got.OK() || got.Out != want {
						r.Violate(ev.Violation{Signature: "c11:literal-after-spread-slice", What: fmt.Sprintf("Add(parts...) of one slice (len %d, cap %d) used %d times, literal %T(%v) appended to use %d: renders %q, want %q", n, n+extra, len(vals), vals[i], vals[i], i, got, want),
							Case: ev.JSON(c11Case{Type: "litfunc-stateful"}), Detail: "a literal appended to a statement made from a shared argument slice was replaced"})
					}
				}
			}
		}
	}

	// literals appended to clones of one prefix statement, all built before any is rendered
	for pi, mk := range []func() *jen.Statement{
		func() *jen.Statement { return jen.Id("x").Index(jen.Lit(0)).Op("=") },
		func() *jen.Statement { return jen.Id("t").Dot("f").Op("=") },
		func() *jen.Statement { return jen.Var().Id("v").Float64().Op("=").Lit(1.0).Op("+") },
		func() *jen.Statement { return jen.Return() },
	} {
		vals := []any{int8(-128), uint8(255), int64(math.MinInt64), 1.5, float32(0.1), true, 7, uint64(math.MaxUint64), complex64(1 + 2i), 1e21, -0.5, uintptr(9)}
		prefix := mk()
		var sts []*jen.Statement
		for _, v := range vals {
			sts = append(sts, prefix.Clone().Lit(v))
		}
		head := jh.Raw(mk()).Out
		for i, st := range sts {
			got, want := jh.Raw(st), head+" "+jh.Raw(jen.Lit(vals[i])).Out
			r.Eval(1)
			r.Distinct(fmt.Sprintf("clone-prefix-%d-%d", pi, i))
			if !got.OK() || got.Out != want {
				r.Violate(ev.Violation{Signature: "c11:literal-on-clone", What: fmt.Sprintf("prefix %q cloned %d times, literal %T(%v) appended to clone %d: renders %q, want %q", head, len(vals), vals[i], vals[i], i, got, want),
					Case: ev.JSON(c11Case{Type: "litfunc-stateful"}), Detail: "a literal appended to a clone was replaced by a sibling clone's literal"})
			}
		}
	}

	if r.Tier == ev.Thorough {
		done := explore.Range(1<<32, 0, r.Expired, func(_ int, i int64) {
			b := uint32(i)
			if b&0x7f800000 == 0x7f800000 {
				return // Inf / NaN: outside the property ("finite")
			}
			v := math.Float32frombits(b)
			o := jh.Raw(jen.Lit(v))
			r.Eval(1)
			if !o.OK() {
				fail(c11Case{Type: "float32", Bits: uint64(b)}, "Lit", "render failed: "+o.String())
				return
			}
			if b%97 == 0 {
				r.Distinct(o.Out)
			}
			msg := c11Fast32(v, o.Out)
			if msg == "" && b%257 == 0 {
				msg = c11Check("float32", v, o.Out)
			}
			if msg != "" {
				fail(c11Case{Type: "float32", Bits: uint64(b)}, "Lit", msg)
			}
		})
		r.Note("float32_sweep", map[string]any{"bit_patterns": int64(1) << 32, "complete": done,
			"oracle": "text is float32(<one number token>) and strconv.ParseFloat(.,32) == v; go/types cross-check and distinct counting on every 257th / 97th pattern"})
		if !done {
			r.NotExhaustive("deadline reached inside the float32 sweep")
		}
	}
}

func replayC11(raw json.RawMessage) (bool, string) {
	var c c11Case
	if err := json.Unmarshal(raw, &c); err != nil {
		return true, "bad case"
	}
	if c.Type == "litfunc-stateful" {
		n := 0
		st := jen.LitFunc(func() interface{} { n++; return n })
		got := jh.Raw(st)
		return n == 1 && got.Out == "1", fmt.Sprintf("LitFunc(counter): called %d times, renders %q", n, got)
	}
	v := c.value()
	o := c11Render(v, false)
	if !o.OK() {
		return false, "render failed: " + o.String()
	}
	msg := c11Check(c.Type, v, o.Out)
	if msg == "" {
		if o2 := c11Render(v, true); o2.Key() != o.Key() {
			msg = fmt.Sprintf("LitFunc renders %q, Lit renders %q", o2, o)
		}
	}
	return msg == "", fmt.Sprintf("Lit(%s %v) renders %q: %s", c.Type, v, o.Out, msg)
}
