package checks

import (
	"bytes"
	"fmt"
	"go/ast"
	"go/format"
	"go/parser"
	"go/token"
	"os"
	"path/filepath"
	"runtime"
	"strings"
	"sync"

	"verif/internal/a2j"
	"verif/internal/norm"
)

// The Go-syntax <-> DSL bridge (engine E5): a Go file is translated construct by construct into
// jennifer calls (internal/a2j), rendered, re-parsed, and both syntax trees are compared in a
// canonical form (internal/norm).

// pkgResolver finds the declared name of an import path from source trees on disk.
type pkgResolver struct {
	roots []string // directories that contain <import path>/ package directories
	mods  map[string]string
	cache sync.Map
}

func newResolver(goroot string) *pkgResolver {
	src := filepath.Join(goroot, "src")
	if real, err := filepath.EvalSymlinks(src); err == nil {
		src = real
	}
	repo := os.Getenv("VERIF_REPO")
	if repo == "" {
		repo = "/repo"
	}
	return &pkgResolver{roots: []string{src, filepath.Join(src, "vendor"), filepath.Join(src, "cmd", "vendor"), filepath.Join(src, "cmd")},
		mods: map[string]string{"github.com/dave/jennifer": repo}}
}

func pkgNameIn(dir string) string {
	ents, err := os.ReadDir(dir)
	if err != nil {
		return ""
	}
	counts := map[string]int{}
	for _, e := range ents {
		n := e.Name()
		if e.IsDir() || !strings.HasSuffix(n, ".go") || strings.HasSuffix(n, "_test.go") {
			continue
		}
		src, err := os.ReadFile(filepath.Join(dir, n))
		if err != nil || bytes.Contains(src, []byte("//go:build ignore")) {
			continue
		}
		f, err := parser.ParseFile(token.NewFileSet(), n, src, parser.PackageClauseOnly)
		if err != nil {
			continue
		}
		counts[f.Name.Name]++
	}
	best, bn := "", 0
	for k, v := range counts {
		if v > bn || v == bn && k < best {
			best, bn = k, v
		}
	}
	return best
}

func (r *pkgResolver) name(path string) string {
	if v, ok := r.cache.Load(path); ok {
		return v.(string)
	}
	n := ""
	for mod, dir := range r.mods {
		if path == mod || strings.HasPrefix(path, mod+"/") {
			n = pkgNameIn(filepath.Join(dir, strings.TrimPrefix(path, mod)))
		}
	}
	for _, root := range r.roots {
		if n != "" {
			break
		}
		n = pkgNameIn(filepath.Join(root, path))
	}
	r.cache.Store(path, n)
	return n
}

type bridgeResult struct {
	Kind   string // ok | skip-* | RENDER-ERROR | REPARSE-ERROR | DIFF-* | PANIC
	Detail string
	Decls  int
	Sites  int
	Output string
}

func (b bridgeResult) violation() bool {
	return b.Kind != "ok" && !strings.HasPrefix(b.Kind, "skip-")
}

// roundTrip translates src through the DSL and compares the syntax trees.
func roundTrip(filename string, src []byte, realName func(string) string, hooks a2j.Hooks) (res bridgeResult) {
	defer func() {
		if r := recover(); r != nil {
			res.Kind = "PANIC"
			res.Detail = fmt.Sprint(r)
		}
	}()
	fset := token.NewFileSet()
	af, err := parser.ParseFile(fset, filename, src, parser.ParseComments)
	if err != nil {
		return bridgeResult{Kind: "skip-unparseable", Detail: err.Error()}
	}
	seen := map[string]bool{}
	for _, is := range af.Imports {
		if seen[is.Path.Value] {
			return bridgeResult{Kind: "skip-path-imported-twice", Detail: is.Path.Value}
		}
		seen[is.Path.Value] = true
	}
	c := &a2j.Conv{Hooks: hooks}
	f := c.File(af, realName)
	res.Sites = c.Sites
	if c.Skip != "" {
		res.Kind = "skip-translator"
		res.Detail = c.Skip
		return
	}
	var buf bytes.Buffer
	if err := f.Render(&buf); err != nil {
		e := err.Error()
		if i := strings.Index(e, "while formatting"); i > 0 {
			e = e[:i]
		}
		res.Kind, res.Detail = "RENDER-ERROR", e
		return
	}
	res.Output = buf.String()
	af2, err := parser.ParseFile(token.NewFileSet(), "out.go", buf.Bytes(), parser.ParseComments)
	if err != nil {
		res.Kind, res.Detail = "REPARSE-ERROR", err.Error()
	} else {
		res = compareTrees(af, af2, res)
	}
	if res.violation() && gofmtChanges(src, af) {
		// gofmt applied to the REFERENCE program already damages it (e.g. go/printer strips the
		// parentheses around a generic composite literal in an if header): not jennifer's doing
		res.Kind = "skip-gofmt-damages-reference"
	}
	return res
}

// gofmtChanges reports whether go/format applied to the reference source yields a different
// syntax tree (or something that no longer parses).
func gofmtChanges(src []byte, af *ast.File) bool {
	out, err := format.Source(src)
	if err != nil {
		return true
	}
	af2, err := parser.ParseFile(token.NewFileSet(), "fmt.go", out, parser.ParseComments)
	if err != nil {
		return true
	}
	return compareTrees(af, af2, bridgeResult{}).Kind != "ok"
}

func compareTrees(af, af2 *ast.File, res bridgeResult) bridgeResult {
	n1, i1, d1 := norm.File(af)
	n2, i2, d2 := norm.File(af2)
	res.Decls = len(d1)
	if n1 != n2 {
		res.Kind, res.Detail = "DIFF-package", n1+" vs "+n2
		return res
	}
	if strings.Join(i1, "\n") != strings.Join(i2, "\n") {
		res.Kind, res.Detail = "DIFF-imports", strings.Join(i1, ";")+" VS "+strings.Join(i2, ";")
		return res
	}
	if len(d1) != len(d2) {
		res.Kind, res.Detail = "DIFF-ndecls", fmt.Sprintf("%d vs %d", len(d1), len(d2))
		return res
	}
	for i := range d1 {
		if d1[i] != d2[i] {
			a, b := d1[i], d2[i]
			j := 0
			for j < len(a) && j < len(b) && a[j] == b[j] {
				j++
			}
			lo := j - 80
			if lo < 0 {
				lo = 0
			}
			hi := func(s string) int {
				if j+100 < len(s) {
					return j + 100
				}
				return len(s)
			}
			res.Kind, res.Detail = "DIFF-decl", fmt.Sprintf("declaration %d: original ...%s  VS  rendered ...%s", i, a[lo:hi(a)], b[lo:hi(b)])
			return res
		}
	}
	res.Kind = "ok"
	return res
}

// goFilesBelow lists the .go files below root (testdata and _ directories skipped), sorted.
func goFilesBelow(root string) []string {
	if real, err := filepath.EvalSymlinks(root); err == nil {
		root = real
	}
	var files []string
	filepath.Walk(root, func(p string, info os.FileInfo, err error) error {
		if err != nil {
			return nil
		}
		if info.IsDir() && p != root && (info.Name() == "testdata" || strings.HasPrefix(info.Name(), "_") || strings.HasPrefix(info.Name(), ".")) {
			return filepath.SkipDir
		}
		if !info.IsDir() && strings.HasSuffix(p, ".go") {
			files = append(files, p)
		}
		return nil
	})
	return files
}

var defaultGoroot = runtime.GOROOT()

// roundTripSave is roundTrip through File.Save: the program is written to target (which already
// exists) and the file read back is compared with the reference tree. Kind "" = not translatable.
func roundTripSave(filename string, src []byte, realName func(string) string, target string) (res bridgeResult) {
	defer func() {
		if r := recover(); r != nil {
			res.Kind, res.Detail = "PANIC", fmt.Sprint(r)
		}
	}()
	af, err := parser.ParseFile(token.NewFileSet(), filename, src, parser.ParseComments)
	if err != nil {
		return
	}
	seen := map[string]bool{}
	for _, is := range af.Imports {
		if seen[is.Path.Value] {
			return
		}
		seen[is.Path.Value] = true
	}
	c := &a2j.Conv{}
	f := c.File(af, realName)
	if c.Skip != "" {
		return
	}
	if err := f.Save(target); err != nil {
		res.Kind, res.Detail = "SAVE-ERROR", err.Error()
		return
	}
	out, err := os.ReadFile(target)
	if err != nil {
		res.Kind, res.Detail = "SAVE-ERROR", err.Error()
		return
	}
	af2, err := parser.ParseFile(token.NewFileSet(), "saved.go", out, parser.ParseComments)
	if err != nil {
		res.Kind, res.Detail = "REPARSE-ERROR", err.Error()
		return
	}
	return compareTrees(af, af2, res)
}
