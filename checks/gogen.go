package checks

import (
	"fmt"
	"os"
	"sort"
	"strings"
	"sync"

	"verif/internal/a2j"
	"verif/internal/ev"
	"verif/internal/explore"
)

// gogen is an E1 generator of Go source files: every syntactic category has a default (simplest)
// production and a list of alternatives; every alternative taken costs one deviation. The
// generated text is parsed by go/parser (which also validates the generator) and serves as the
// reference program of C01 (and C02's "valid programs with damage").

type gogen struct {
	c       *explore.Ctx
	imports map[string]string // local name -> import spec line
	cgo     bool
	maxE    int // maximal expression / type depth
	maxS    int // maximal statement nesting
	n       int
}

func (g *gogen) pick(n int) int { return g.c.Choose(n) }

// pick0 chooses among variants of a production that has already been paid for (which literal,
// which operator): free of charge, so every variant is explored wherever the production is.
func (g *gogen) pick0(n int) int { return g.c.ChooseCost(n, 0) }

func (g *gogen) name(prefix string) string {
	g.n++
	return fmt.Sprintf("%s%d", prefix, g.n)
}

var ggLits = []string{"0", "1", "9223372036854775807", "1234567890123456789012345678901234567890", "1e100", "0x1p-2", "1.5", "2i", "'a'", `'\n'`, `'\''`, `"s"`, `"a\"b\\"`, "`raw\nline`", `""`, "0.1", "1_000", "0b101", "0o17", "0xFF", `'\u00e9'`, `"é\x00\xff"`, "1e-7", "100000.0", "0X1F", "0B11", "1E3", "0O17", "0X1P-2", "1E3i", "0XFFFFFFFFFFFFFFFFFFFF", "0X1P-2i", "0B1i"}
var ggPredecl = []string{"nil", "true", "int", "err", "iota", "string", "any", "false", "error", "byte", "rune", "float64", "uint8", "comparable"}
var ggBuiltins = []string{"len", "cap", "append", "make", "new", "copy", "delete", "panic", "print", "println", "recover", "real", "imag", "complex", "close", "clear", "min", "max"}
var ggUnary = []string{"-", "+", "!", "^", "*", "&", "<-"}
var ggBinary = []string{"+", "-", "*", "/", "%", "&", "|", "^", "<<", ">>", "&^", "&&", "||", "==", "!=", "<", "<=", ">", ">="}
var ggAssignOps = []string{"=", ":=", "+=", "-=", "*=", "/=", "%=", "&=", "|=", "^=", "<<=", ">>=", "&^="}

// qualified identifier through one of five kinds of import
func (g *gogen) qual(sym string) string {
	switch g.pick(5) {
	case 4:
		// a vendored copy, imported by its location (what go/types reports for vendored packages)
		g.imports["vlib"] = `vlib "app/vendor/x/lib"`
		return "vlib." + sym
	case 1:
		g.imports["rand"] = `"math/rand"`
		return "rand." + sym
	case 2:
		g.imports["yaml"] = `yaml "x/yaml.v2"`
		return "yaml." + sym
	case 3:
		g.cgo = true
		return "C." + strings.ToLower(sym)
	}
	g.imports["fmt"] = `"fmt"`
	return "fmt." + sym
}

// hexpr is an expression for a statement header: composite literals there need parentheses.
func (g *gogen) hexpr(d int) string {
	e := g.expr(d)
	if strings.Contains(e, "{") {
		return "(" + e + ")"
	}
	return e
}

// pexpr is an expression used as an operand of a postfix form (call, type switch guard).
func (g *gogen) pexpr(d int) string {
	e := g.expr(d)
	if e != "" && e[0] >= '0' && e[0] <= '9' {
		return "(" + e + ")"
	}
	for _, r := range e {
		if !(r == '_' || r == '.' || r >= '0' && r <= '9' || r >= 'a' && r <= 'z' || r >= 'A' && r <= 'Z') {
			return "(" + e + ")"
		}
	}
	return e
}

func (g *gogen) exprs(d, n int) string {
	var es []string
	for i := 0; i < n; i++ {
		es = append(es, g.expr(d))
	}
	return strings.Join(es, ", ")
}

// expr generates an expression; production 0 is an identifier.
func (g *gogen) expr(d int) string {
	nprod := 20
	if d >= g.maxE {
		nprod = 4
	}
	switch g.pick(nprod) {
	case 0:
		return "x"
	case 1:
		return ggLits[g.pick0(len(ggLits))]
	case 2:
		return ggPredecl[g.pick0(len(ggPredecl))]
	case 3:
		return g.qual("X")
	case 4:
		return ggUnary[g.pick0(len(ggUnary))] + g.expr(d+1)
	case 5:
		return g.expr(d+1) + " " + ggBinary[g.pick0(len(ggBinary))] + " " + g.expr(d+1)
	case 6: // call
		n := g.pick(5)
		args := g.exprs(d+1, n)
		if n > 0 && g.pick(2) == 1 {
			args += "..."
		}
		return g.pexpr(d+1) + "(" + args + ")"
	case 7:
		return g.pexpr(d+1) + "[" + g.expr(d+1) + "]"
	case 8: // slices: every presence combination
		x := g.pexpr(d + 1)
		lo, hi := "", ""
		switch g.pick(6) {
		case 0:
			return x + "[:]"
		case 1:
			lo = g.expr(d + 1)
		case 2:
			hi = g.expr(d + 1)
		case 3:
			lo, hi = g.expr(d+1), g.expr(d+1)
		case 4:
			return x + "[:" + g.expr(d+1) + ":" + g.expr(d+1) + "]"
		case 5:
			return x + "[" + g.expr(d+1) + ":" + g.expr(d+1) + ":" + g.expr(d+1) + "]"
		}
		return x + "[" + lo + ":" + hi + "]"
	case 9:
		return g.pexpr(d+1) + ".Sel"
	case 10:
		return g.pexpr(d+1) + ".(" + g.typ(d+1) + ")"
	case 11:
		return "(" + g.expr(d+1) + ")"
	case 12: // function literal
		return "func" + g.signature(d+1) + " " + g.block(g.maxS-1, d+1)
	case 13: // composite literals
		t := g.typ(d + 1)
		switch g.pick(9) {
		case 6: // keys in the order of their text (which is Dict's order), not of their value
			return "map[int]" + t + "{1: " + g.expr(d+1) + ", 10: " + g.expr(d+1) + ", 2: " + g.expr(d+1) + "}"
		case 7:
			return "[...]" + t + "{100: x, 1000: x, 200: x, 30: x, 404: x, 5: " + g.expr(d+1) + "}"
		case 8: // identifiers, strings and runes as keys, in text order
			return "map[any]" + t + "{\"B\": x, \"a\": x, 'c': x, A: x, _b: " + g.expr(d+1) + ", a1: x}"
		case 0:
			return t + "{}"
		case 1:
			return t + "{" + g.exprs(d+1, 1+g.pick(3)) + "}"
		case 2: // keyed
			n := 1 + g.pick(3)
			var kv []string
			for i := 0; i < n; i++ {
				kv = append(kv, fmt.Sprintf("K%d: %s", i, g.expr(d+1)))
			}
			return t + "{" + strings.Join(kv, ", ") + "}"
		case 3: // nested with elided type
			return "[]" + t + "{{" + g.exprs(d+1, 1) + "}, {}}"
		case 4:
			return "[...]" + t + "{" + g.exprs(d+1, 2) + "}"
		default: // keyed by literal keys, map style
			return "map[string]" + t + "{\"b\": " + g.expr(d+1) + ", \"a\": " + g.expr(d+1) + "}"
		}
	case 14: // conversion to a non-name type
		switch g.pick(3) {
		case 0:
			return "[]byte(" + g.expr(d+1) + ")"
		case 1:
			return "(*" + g.typ(d+1) + ")(" + g.expr(d+1) + ")"
		default:
			return "(func())(" + g.expr(d+1) + ")"
		}
	case 15: // generic instantiation
		if g.pick(2) == 0 {
			return "G[" + g.typ(d+1) + "](" + g.expr(d+1) + ")"
		}
		return "G[" + g.typ(d+1) + ", " + g.typ(d+1) + "]{}"
	case 16:
		return g.qual("F") + "(" + g.expr(d+1) + ")"
	case 17:
		return "&" + g.typ(d+1) + "{" + g.exprs(d+1, g.pick(3)) + "}"
	case 19: // a call of a built-in function (every built-in is a free variant)
		switch b := ggBuiltins[g.pick0(len(ggBuiltins))]; b {
		case "recover", "println":
			return b + "()"
		case "new":
			return "new(" + g.typ(d+1) + ")"
		case "make":
			return "make([]" + g.typ(d+1) + ", " + g.expr(d+1) + ")"
		case "append":
			return "append(" + g.expr(d+1) + ", " + g.expr(d+1) + ", x...)"
		case "complex", "copy", "delete", "print":
			return b + "(" + g.expr(d+1) + ", " + g.expr(d+1) + ")"
		case "min", "max":
			return b + "(" + g.exprs(d+1, 1+g.pick(3)) + ")"
		default:
			return b + "(" + g.expr(d+1) + ")"
		}
	default:
		return g.pexpr(d+1) + ".M(" + g.exprs(d+1, g.pick(3)) + ")"
	}
}

func (g *gogen) params(d int) string {
	switch g.pick(8) {
	case 0:
		return "()"
	case 1:
		return "(a " + g.typ(d) + ")"
	case 2:
		return "(a, b " + g.typ(d) + ")"
	case 3:
		return "(a " + g.typ(d) + ", b, c " + g.typ(d) + ")"
	case 4:
		return "(" + g.typ(d) + ", " + g.typ(d) + ")"
	case 5:
		return "(a " + g.typ(d) + ", rest ..." + g.typ(d) + ")"
	case 6:
		return "(..." + g.typ(d) + ")"
	default:
		return "(_ " + g.typ(d) + ", _ " + g.typ(d) + ")"
	}
}

func (g *gogen) signature(d int) string {
	p := g.params(d)
	switch g.pick(5) {
	case 0:
		return p
	case 1:
		return p + " " + g.typ(d)
	case 2:
		return p + " (" + g.typ(d) + ", " + g.typ(d) + ")"
	case 3:
		return p + " (r " + g.typ(d) + ", err error)"
	default:
		return p + " (r, s " + g.typ(d) + ")"
	}
}

// typ generates a type; production 0 is a named type.
func (g *gogen) typ(d int) string {
	nprod := 16
	if d >= g.maxE {
		nprod = 3
	}
	switch g.pick(nprod) {
	case 0:
		return "T"
	case 1:
		return ggPredecl[2+g.pick(len(ggPredecl)-2)]
	case 2:
		return g.qual("T")
	case 3:
		return "*" + g.typ(d+1)
	case 4:
		return "[]" + g.typ(d+1)
	case 5:
		return "[" + g.expr(d+1) + "]" + g.typ(d+1)
	case 6:
		return "map[" + g.typ(d+1) + "]" + g.typ(d+1)
	case 7:
		switch g.pick(5) {
		case 0:
			return "chan " + g.typ(d+1)
		case 1:
			return "<-chan " + g.typ(d+1)
		case 2:
			return "chan<- " + g.typ(d+1)
		case 3:
			return "chan (<-chan " + g.typ(d+1) + ")"
		default:
			return "chan<- chan " + g.typ(d+1)
		}
	case 8:
		return "func" + g.signature(d+1)
	case 9: // struct
		switch g.pick(9) {
		case 7: // tag values with characters %q escapes: no-break space, zero-width space, BOM, invalid UTF-8, control
			return "struct {\n A " + g.typ(d+1) + " \"json:\\\"a\\u00a0b\\u200bc\\ufeff\\\" bin:\\\"\\xff\\x00\\\"\"\n}"
		case 8: // tag values with percent signs, quotes and backquotes
			return "struct {\n A " + g.typ(d+1) + " \"fmt:\\\"100%d%%\\\" q:\\\"a\\\\\\\"b`c\\\"\"\n}"
		case 0:
			return "struct{}"
		case 1:
			return "struct{ A " + g.typ(d+1) + " }"
		case 2:
			return "struct {\n A, B " + g.typ(d+1) + "\n C " + g.typ(d+1) + "\n}"
		case 3:
			return "struct {\n T\n *E\n " + g.qual("Emb") + "\n}"
		case 4:
			return "struct {\n A " + g.typ(d+1) + " `json:\"a\" db:\"x y\"`\n}"
		case 5:
			return "struct {\n A " + g.typ(d+1) + " \"not conventional\"\n B int `z:\"1\" a:\"2\"`\n}"
		default:
			return "struct {\n A struct{ B " + g.typ(d+1) + " }\n G[int]\n}"
		}
	case 10: // interface
		switch g.pick(7) {
		case 0:
			return "interface{}"
		case 1:
			return "interface{ M() }"
		case 2:
			return "interface {\n M" + g.signature(d+1) + "\n N(a int) error\n}"
		case 3:
			return "interface {\n E\n " + g.qual("Iface") + "\n M()\n}"
		case 4:
			return "interface{ int | string | ~float64 }"
		case 5:
			return "interface {\n ~" + "int\n M()\n}"
		default:
			return "interface{ ~[]byte | " + g.typ(d+1) + " }"
		}
	case 11:
		return "G[" + g.typ(d+1) + "]"
	case 12:
		return "G[" + g.typ(d+1) + ", " + g.typ(d+1) + "]"
	case 13:
		return g.qual("G") + "[" + g.typ(d+1) + "]"
	case 14:
		return "(" + g.typ(d+1) + ")"
	default:
		return "[][]" + g.typ(d+1)
	}
}

func (g *gogen) block(s, d int) string {
	var sb strings.Builder
	sb.WriteString("{\n")
	n := g.pick(4) // 0 = one statement, 1 = none, 2 = two, 3 = three
	cnt := []int{1, 0, 2, 3}[n]
	for i := 0; i < cnt; i++ {
		sb.WriteString(g.stmt(s, d))
		sb.WriteString("\n")
	}
	sb.WriteString("}")
	return sb.String()
}

func (g *gogen) simple(d int) string {
	switch g.pick(4) {
	case 0:
		return "i := 0"
	case 1:
		return "i++"
	case 2:
		return g.hexpr(d) + " = " + g.hexpr(d)
	default:
		return "f(" + g.hexpr(d) + ")"
	}
}

// stmt generates a statement; production 0 is a call. s is the remaining nesting budget.
func (g *gogen) stmt(s, d int) string {
	nprod := 30
	if s <= 0 {
		nprod = 12
	}
	switch g.pick(nprod) {
	case 0:
		return "x()"
	case 1: // assignment
		op := ggAssignOps[g.pick0(len(ggAssignOps))]
		switch n := g.pick(3); {
		case n == 0 || op != "=" && op != ":=":
			return "a " + op + " " + g.expr(d)
		case n == 1:
			return "a, b " + op + " " + g.expr(d) + ", " + g.expr(d)
		default:
			return "a, b, c " + op + " " + g.expr(d)
		}
	case 2:
		return g.expr(d) + []string{"++", "--"}[g.pick(2)]
	case 3:
		return g.expr(d) + " <- " + g.expr(d)
	case 4:
		return []string{"go ", "defer "}[g.pick(2)] + g.pexpr(d) + "()"
	case 5:
		return "return " + g.exprs(d, g.pick(4))
	case 6:
		return []string{"break", "continue", "goto L", "fallthrough", "break L", "continue L"}[g.pick(6)]
	case 7: // declaration statements
		return g.genDecl(d, true)
	case 8:
		return g.expr(d)
	case 9:
		return "var v " + g.typ(d)
	case 10:
		return "v := " + g.expr(d)
	case 11:
		return "_ = " + g.expr(d)
	case 12:
		return g.block(s-1, d)
	case 13: // if
		init := ""
		if g.pick(2) == 1 {
			init = g.simple(d) + "; "
		}
		st := "if " + init + g.hexpr(d) + " " + g.block(s-1, d)
		switch g.pick(4) {
		case 1:
			st += " else " + g.block(s-1, d)
		case 2:
			st += " else if " + g.hexpr(d) + " " + g.block(s-1, d)
		case 3:
			st += " else if v := " + g.hexpr(d) + "; v " + g.block(s-1, d) + " else if w " + g.block(s-1, d) + " else " + g.block(s-1, d)
		}
		return st
	case 14: // switch
		hdr := "switch "
		switch g.pick(4) {
		case 1:
			hdr += g.hexpr(d) + " "
		case 2:
			hdr += g.simple(d) + "; " + g.hexpr(d) + " "
		case 3:
			hdr += g.simple(d) + "; "
		}
		return hdr + g.clauses(s-1, d, false)
	case 15: // type switch
		hdr := "switch "
		if g.pick(2) == 1 {
			hdr += g.simple(d) + "; "
		}
		if g.pick(2) == 1 {
			hdr += "v := "
		}
		return hdr + g.pexpr(d) + ".(type) " + g.clauses(s-1, d, true)
	case 16: // select
		var sb strings.Builder
		sb.WriteString("select {\n")
		n := g.pick(4)
		for i := 0; i < n; i++ {
			switch g.pick(5) {
			case 0:
				sb.WriteString("case <-ch:\n")
			case 1:
				sb.WriteString("case v := <-ch:\n")
			case 2:
				sb.WriteString("case v, ok = <-" + g.expr(d) + ":\n")
			case 3:
				sb.WriteString("case ch <- " + g.expr(d) + ":\n")
			default:
				sb.WriteString("default:\n")
			}
			if g.pick(2) == 0 {
				sb.WriteString(g.stmt(s-1, d) + "\n")
			}
		}
		sb.WriteString("}")
		return sb.String()
	case 17: // for: every presence combination
		switch g.pick(9) {
		case 0:
			return "for " + g.block(s-1, d)
		case 1:
			return "for " + g.hexpr(d) + " " + g.block(s-1, d)
		case 2:
			return "for i := 0; i < n; i++ " + g.block(s-1, d)
		case 3:
			return "for ; ; " + g.block(s-1, d)
		case 4:
			return "for " + g.simple(d) + "; ; " + g.block(s-1, d)
		case 5:
			return "for ; " + g.hexpr(d) + "; " + g.block(s-1, d)
		case 6:
			return "for ; ; " + g.simple(d) + " " + g.block(s-1, d)
		case 7:
			return "for " + g.simple(d) + "; " + g.hexpr(d) + "; " + g.block(s-1, d)
		default:
			return "for ; " + g.hexpr(d) + "; " + g.simple(d) + " " + g.block(s-1, d)
		}
	case 18: // range
		switch g.pick(8) {
		case 0:
			return "for range " + g.hexpr(d) + " " + g.block(s-1, d)
		case 1:
			return "for k := range " + g.hexpr(d) + " " + g.block(s-1, d)
		case 2:
			return "for k, v := range " + g.hexpr(d) + " " + g.block(s-1, d)
		case 3:
			return "for k, v = range " + g.hexpr(d) + " " + g.block(s-1, d)
		case 4:
			return "for _, v := range " + g.hexpr(d) + " " + g.block(s-1, d)
		case 5:
			return "for i := range 10 " + g.block(s-1, d)
		case 6:
			return "for a[i] = range " + g.hexpr(d) + " " + g.block(s-1, d)
		default:
			return "for range 3 " + g.block(s-1, d)
		}
	case 19: // labelled
		switch g.pick(4) {
		case 0:
			return "L:\n" + g.stmt(s-1, d)
		case 1:
			return "L:\nfor " + g.block(s-1, d)
		case 2:
			return "{\nx()\nL:\n}"
		default:
			return "L:\n;\ny()"
		}
	case 20:
		return "if x " + g.block(s-1, d) + " else " + g.block(s-1, d)
	case 21:
		return "func() " + g.block(s-1, d) + "()"
	case 22:
		return "defer func() " + g.block(s-1, d) + "()"
	case 23:
		return "switch {\ncase " + g.expr(d) + ":\n" + g.stmt(s-1, d) + "\nfallthrough\ndefault:\n}"
	case 24:
		return "for {\nselect {\ncase <-" + g.expr(d) + ":\nreturn\ndefault:\n}\n}"
	case 25:
		return "go func(a " + g.typ(d) + ") " + g.block(s-1, d) + "(" + g.expr(d) + ")"
	case 26:
		return "x, ok := " + g.pexpr(d) + ".(" + g.typ(d) + ")"
	case 27:
		return "v, ok := <-" + g.expr(d)
	case 28:
		return "a[" + g.expr(d) + "], b." + "F = " + g.expr(d) + ", " + g.expr(d)
	default:
		return "*p = " + g.expr(d)
	}
}

func (g *gogen) clauses(s, d int, types bool) string {
	var sb strings.Builder
	sb.WriteString("{\n")
	n := g.pick(4) // number of clauses
	def := -1
	if n > 0 {
		def = g.pick(n+1) - 1 // position of default (-1 = none)
	}
	for i := 0; i < n; i++ {
		if i == def {
			sb.WriteString("default:\n")
		} else {
			k := 1 + g.pick(3)
			var items []string
			for j := 0; j < k; j++ {
				if types {
					items = append(items, g.typ(d))
				} else {
					items = append(items, g.expr(d))
				}
			}
			sb.WriteString("case " + strings.Join(items, ", ") + ":\n")
		}
		if g.pick(2) == 0 {
			sb.WriteString(g.stmt(s, d) + "\n")
		}
	}
	sb.WriteString("}")
	return sb.String()
}

// genDecl generates a var / const / type declaration (inStmt: inside a function).
func (g *gogen) genDecl(d int, inStmt bool) string {
	switch g.pick(16) {
	case 0:
		return "var v = " + g.expr(d)
	case 1:
		return "var v " + g.typ(d) + " = " + g.expr(d)
	case 2:
		return "var a, b " + g.typ(d)
	case 3:
		return "var a, b = " + g.expr(d) + ", " + g.expr(d)
	case 4:
		return "var ()"
	case 5:
		return "var (\n a = " + g.expr(d) + "\n b " + g.typ(d) + "\n c, d = 1, 2\n)"
	case 6:
		return "const c = " + g.expr(d)
	case 7:
		return "const c " + g.typ(d) + " = " + g.expr(d)
	case 8:
		return "const (\n A = iota\n B\n C\n)"
	case 9:
		return "const (\n A, B = iota, iota * 2\n _, _\n C, D\n)"
	case 10:
		return "type N " + g.typ(d)
	case 11:
		return "type N = " + g.typ(d)
	case 12:
		return "type (\n A " + g.typ(d) + "\n B = " + g.typ(d) + "\n)"
	case 13:
		return "type N[P any] " + g.typ(d)
	case 14:
		return "type N[P, Q any, R interface{ ~int | ~string }] struct {\n a P\n b Q\n}"
	default:
		return "type N[P " + g.typ(d) + "] []P"
	}
}

func (g *gogen) decl(d int) string {
	switch g.pick(10) {
	case 0:
		return "func f() " + g.block(g.maxS, d)
	case 1:
		return "func f" + g.signature(d) + " " + g.block(g.maxS, d)
	case 2: // method
		recv := []string{"(r T)", "(r *T)", "(T)", "(r *G[P])", "(_ T)"}[g.pick(5)]
		return "func " + recv + " M" + g.signature(d) + " " + g.block(g.maxS, d)
	case 3:
		return "func f" + g.signature(d) // no body
	case 4: // generic function
		tp := ""
		switch g.pick(5) {
		case 0:
			tp = "[P any]"
		case 1:
			tp = "[P, Q any]"
		case 2:
			tp = "[P comparable, Q interface{ ~int }]"
		case 3:
			tp = "[P " + g.typ(d) + "]"
		default:
			tp = "[S ~[]E, E any]"
		}
		return "func f" + tp + g.signature(d) + " " + g.block(g.maxS, d)
	case 5:
		return g.genDecl(d, false)
	case 6:
		return "var v = " + g.expr(d) + "\n\nfunc f() " + g.block(g.maxS, d)
	case 7:
		return "func init() " + g.block(g.maxS, d) + "\n\nfunc init() {}"
	case 8:
		return "type T " + g.typ(d) + "\n\nfunc (t T) String() string " + g.block(g.maxS, d)
	default:
		return "var _ " + g.typ(d) + " = " + g.expr(d)
	}
}

// file generates one source file.
func (g *gogen) file() string {
	pkg := []string{"p", "main", "p_test"}[g.pick(3)]
	ndecl := []int{1, 2, 3}[g.pick(3)]
	var decls []string
	for i := 0; i < ndecl; i++ {
		decls = append(decls, g.decl(0))
	}
	var sb strings.Builder
	sb.WriteString("package " + pkg + "\n\n")
	var names []string
	for n := range g.imports {
		names = append(names, n)
	}
	sort.Strings(names)
	// import layout: one block (default) or separate declarations
	sep := len(names) > 1 && g.pick(2) == 1
	if len(names) > 0 && !sep {
		sb.WriteString("import (\n")
		for _, n := range names {
			sb.WriteString("\t" + g.imports[n] + "\n")
		}
		sb.WriteString(")\n\n")
	} else {
		for _, n := range names {
			sb.WriteString("import " + g.imports[n] + "\n")
		}
		sb.WriteString("\n")
	}
	if g.cgo {
		switch g.pick(3) {
		case 0:
			sb.WriteString("// #include <stdlib.h>\nimport \"C\"\n\n")
		case 1:
			sb.WriteString("/*\n#include <a.h>\nint f(void);\n*/\nimport \"C\"\n\n")
		default:
			sb.WriteString("import \"C\"\n\n")
		}
	}
	sb.WriteString(strings.Join(decls, "\n\n"))
	sb.WriteString("\n")
	return sb.String()
}

func gogenProgram(c *explore.Ctx, maxE, maxS int) string {
	g := &gogen{c: c, imports: map[string]string{}, maxE: maxE, maxS: maxS}
	return g.file()
}

var ggRealNames = map[string]string{"fmt": "fmt", "math/rand": "rand"}

func ggRealName(p string) string { return ggRealNames[p] }

// c01Deep: programs that are deep or long rather than varied - chains of else-if, nested calls,
// parentheses, blocks, function literals, composite literals and selector / operand chains of
// 25 * 2^k links.
func c01Deep(r *ev.Recorder) {
	rep := strings.Repeat
	shapes := []struct {
		name string
		mk   func(n int) string
	}{
		{"else-if chain", func(n int) string {
			var sb strings.Builder
			sb.WriteString("func f(x int) int {\n\tif x == 0 {\n\t\treturn 0\n\t}")
			for i := 1; i <= n; i++ {
				fmt.Fprintf(&sb, " else if x == %d {\n\t\treturn %d\n\t}", i, i)
			}
			sb.WriteString(" else {\n\t\treturn -1\n\t}\n}")
			return sb.String()
		}},
		{"nested calls", func(n int) string { return "var v = " + rep("f(", n) + "x" + rep(")", n) }},
		{"nested parentheses", func(n int) string { return "var v = " + rep("(", n) + "x + 1" + rep(")", n) + " * 2" }},
		{"nested blocks", func(n int) string { return "func f() {\n" + rep("{\n", n) + "x++\n" + rep("}\n", n) + "}" }},
		{"nested if", func(n int) string { return "func f() {\n" + rep("if x {\n", n) + "x = !x\n" + rep("}\n", n) + "}" }},
		{"nested function literals", func(n int) string { return "var v = " + rep("func() any { return ", n) + "x" + rep(" }", n) }},
		{"nested composite literals", func(n int) string { return "var v = " + rep("[]any{", n) + "x" + rep("}", n) }},
		{"nested index expressions", func(n int) string { return "var v = " + rep("a[", n) + "0" + rep("]", n) }},
		{"operand chain", func(n int) string { return "var v = x" + rep(" + y*z", n) }},
		{"selector and call chain", func(n int) string { return "var v = b" + rep(".With(x).F", n) }},
		{"pointer and slice type nesting", func(n int) string { return "var v " + rep("*[]", n) + "int" }},
		{"unary operator pile", func(n int) string { return "var v = " + rep("-^", n) + "x" }},
		{"nested switch", func(n int) string {
			return "func f() {\n" + rep("switch x {\ncase 1:\n", n) + "x++\n" + rep("}\n", n) + "}"
		}},
	}
	for _, sh := range shapes {
		for n := 25; n <= 800; n *= 2 {
			src := "package p\n\n" + sh.mk(n) + "\n"
			b := roundTrip("deep.go", []byte(src), ggRealName, a2j.Hooks{})
			r.Eval(1)
			desc := fmt.Sprintf("%s of %d links", sh.name, n)
			if b.Kind == "ok" {
				r.Distinct("deep:" + desc)
			}
			if b.Kind == "skip-unparseable" {
				break // beyond what go/parser itself accepts: not a Go source file any more
			}
			if b.violation() || b.Kind != "ok" {
				r.Violate(ev.Violation{Signature: "c01:deep:" + sh.name + ":" + b.Kind, What: desc + ": " + b.Kind + ": " + jhShort(b.Detail, 300), Case: ev.JSON(c01Case{Kind: "save", Desc: desc}), Detail: jhShort(b.Detail, 3000)})
				break
			}
		}
	}
}

func c01Generated(r *ev.Recorder) {
	c01Deep(r)
	dev := 3
	if r.Tier == ev.Thorough {
		dev = 4
	}
	var mu sync.Mutex
	kinds := map[string]int64{}
	st := explore.Explore(explore.Options{MaxDev: dev, Stop: r.Expired}, func(c *explore.Ctx) {
		src := gogenProgram(c, 3, 3)
		b := roundTrip("gen.go", []byte(src), ggRealName, a2j.Hooks{})
		r.Eval(1)
		if b.Kind == "ok" && c.Devs <= 2 {
			if b2 := roundTrip("gen.go", []byte(src), ggRealName, c01Hooks(true)); b2.Kind != "ok" {
				b = b2
				b.Kind += "(early-add+Func-forms)"
			}
			r.Eval(1)
		}
		if b.Kind == "ok" && c.Devs <= 2 {
			// and without gofmt in between (File.NoFormat): the raw rendering re-parses to the same tree
			if b3 := roundTrip("gen.go", []byte(src), ggRealName, a2j.Hooks{NoFormat: true}); b3.Kind != "ok" {
				b = b3
				b.Kind += "(NoFormat)"
			}
			r.Eval(1)
		}
		mu.Lock()
		kinds[b.Kind]++
		mu.Unlock()
		if b.Kind == "ok" {
			r.Distinct(src)
		}
		if b.Kind == "skip-unparseable" && os.Getenv("VERIF_DEBUG") != "" {
			fmt.Println("UNPARSEABLE", c.Vector(), b.Detail, "\n"+src)
		}
		if b.violation() {
			desc := fmt.Sprintf("generated program (choice vector %v): %s: %s", c.Vector(), b.Kind, b.Detail)
			r.Violate(ev.Violation{Signature: "c01:gen:" + b.Kind + ":" + problemKind(b.Detail), What: jhShort(desc, 400), Case: ev.JSON(c01Case{Kind: "gen", Vector: c.Vector(), Early: strings.Contains(b.Kind, "early-add"), Desc: desc}),
				Detail: b.Detail + "\n--- program\n" + src + "\n--- rendered\n" + b.Output})
		}
		if c.Devs == 2 && c.Points()%17 == 0 && r.WantSample() {
			r.Sample(map[string]any{"choice_vector": c.Vector(), "program": src, "result": b.Kind})
		}
	})
	r.Note("generated", map[string]any{"programs": st.Executions, "per_deviation_level": st.PerLevel, "max_choice_points": st.MaxPoints, "results": kinds, "complete": st.Complete,
		"rule": fmt.Sprintf("Go source generator with one default and up to 30 alternative productions per category (expressions 20 incl. calls of all 18 built-in functions, types 16, statements 30, declarations 10+16, literals %d, all unary/binary/assignment operators, every presence combination of slice/for/switch headers, imports: std, renamed std name, aliased, vendored location path, cgo with preamble); depth <= 3; every program with <= %d non-default choices", len(ggLits), dev)})
	if !st.Complete {
		r.NotExhaustive("generated programs: deadline reached")
	}
	if kinds["skip-unparseable"] > 0 {
		r.Note("generator_invalid_programs", kinds["skip-unparseable"])
	}
}

func jhShort(s string, n int) string {
	if len(s) > n {
		return s[:n] + "…"
	}
	return s
}

func c01ReplayGenerated(c c01Case) (bool, string) {
	src := gogenProgram(explore.NewReplay(c.Vector), 3, 3)
	b := roundTrip("gen.go", []byte(src), ggRealName, c01Hooks(c.Early))
	return !b.violation(), fmt.Sprintf("%s %s\n--- program\n%s\n--- rendered\n%s", b.Kind, b.Detail, src, b.Output)
}
