package checks

import (
	"fmt"
	"strings"

	"github.com/dave/jennifer/jen"

	"verif/internal/ev"
	"verif/internal/imp"
	"verif/internal/jh"
)

// C06: references to the local package and to dot-imports are unqualified.

func c06Family(name, local string, ctors []string, near []string) *family {
	paths := append([]string{local}, near...)
	paths = append(paths, "x/d1", "y/d1", "fmt", "X/D1")
	names := map[string]string{"x/d1": "d1", "y/d1": "d1", "X/D1": "d1"}
	for _, p := range near {
		names[p] = "c"
		if n, std := imp.StdNames[p]; std {
			names[p] = n // a standard-library package is known to jennifer under its real name
		}
	}
	// a gennames-sized table (70 entries) that also names the paths of this family
	big := append([]string{}, paths...)
	for i := 0; len(big) < 70; i++ {
		p := fmt.Sprintf("u/tbl%d", i)
		big = append(big, p)
		names[p] = fmt.Sprintf("tbl%d", i)
	}
	return &family{name: name, ctors: ctors, local: local, paths: paths, names: names, bigHints: big, canon: []string{near[0], "x/d1", local},
		aliases: []string{".", "c"}, prefixes: []string{"pkg"}, maxRefs: 3, freeRefs: 2,
		wrappers: []int{0, imp.WrapperIndex("dictkey"), imp.WrapperIndex("caseblock")}, anon: true, extra: true, last: true, doubles: true, rehint: true}
}

var c06Check = &impCheck{
	id: "C06",
	judge: func(a *imp.Analysis, w *imp.World) []string {
		return append(imp.CheckLocalDot(a, w), imp.CheckResolve(a, w)...)
	},
	nontrivial: func(a *imp.Analysis, w *imp.World) bool {
		for _, u := range a.Uses {
			if u.Qual == "" {
				return true
			}
		}
		return false
	},
	sys: newRawSystem("NewFilePath", "a.b/c", []string{"a.b/c", "a.b/c/", "x/d1", "y/d1", "fmt"}, map[string]string{"a.b/c/": "c", "x/d1": "d1", "y/d1": "d1"},
		[]string{".", "d1"}, []int{0, imp.WrapperIndex("dictkey")}, true, "pkg"),
	bfsDepth: [2]int{4, 5},
	dev:      [2]int{2, 4},
	fams: []*family{
		c06Family("path", "a.b/c", []string{"NewFilePath", "NewFilePathName", "NewFilePathName:c_test"}, []string{"a.b/c/", "a.b/c/x", "x/a.b/c", "a.b/C", "b/c", "c", "a.b/c_test", "app/vendor/a.b/c"}),
		c06Family("single", "c", []string{"NewFilePathName", "NewFilePath", "NewFilePathName:_test"}, []string{"c/", "a/c", "C1", "c/c", "c_test", "vendor/c"}),
		c06Family("slash", "x/y/c/", []string{"NewFilePath", "NewFilePathName"}, []string{"x/y/c", "x/y/c//", "y/c/"}),
		c06Family("version", "x/foo/v2", []string{"NewFilePath", "NewFilePathName"}, []string{"x/foo", "x/foo/v3", "x/foo/v2/sub", "foo/v2"}),
		// the File's own path ends in _test (an external test package) / is a standard-library path
		c06Family("testpath", "a.b/c_test", []string{"NewFilePath", "NewFilePathName"}, []string{"a.b/c", "a.b/c_test/x", "a.b/c_tes"}),
		c06Family("stdlocal", "encoding/json", []string{"NewFilePath", "NewFilePathName", "NewFilePathName:json"}, []string{"encoding", "x/encoding/json", "encoding/json/v2"}),
	},
}

// c06Scale: files with many ordinary imports (sizes around powers of two) before / after 1-3
// dot-imports and a reference to the local package, prefix on/off.
func c06Scale(r *ev.Recorder) {
	for _, n := range []int{0, 1, 7, 8, 9, 15, 16, 17, 31, 32, 33, 63, 64, 65, 130, 260} {
		for dots := 1; dots <= 3; dots++ {
			for variant := 0; variant < 4; variant++ {
				names := map[string]string{}
				w := imp.New("NewFilePath", "a.b/c", imp.DefaultTrueName(names))
				if variant&1 != 0 {
					w.Prefix("pkg")
				}
				ordinary := func() {
					for i := 0; i < n; i++ {
						w.Ref(fmt.Sprintf("u%d/q%d", i, i%7), 0)
					}
				}
				for d := 0; d < dots; d++ {
					w.Alias(fmt.Sprintf("x%d/dot", d), ".")
				}
				if variant&2 == 0 {
					ordinary()
				}
				for d := 0; d < dots; d++ {
					w.Ref(fmt.Sprintf("x%d/dot", d), 0)
				}
				w.Ref("a.b/c", 0)
				if variant&2 != 0 {
					ordinary()
				}
				r.Eval(1)
				a, msg := renderAnalyze(w)
				var probs []string
				if a == nil {
					probs = []string{msg}
				} else {
					probs = append(imp.CheckLocalDot(a, w), imp.CheckResolve(a, w)...)
					r.Distinct(a.Src)
				}
				if len(probs) > 0 {
					desc := fmt.Sprintf("%d ordinary imports (after the dot-imports: %v), %d dot-imports, prefix %v", n, variant&2 != 0, dots, variant&1 != 0)
					r.Violate(ev.Violation{Signature: "c06:scale:" + problemKind(probs[0]), What: desc + ": " + probs[0], Case: ev.JSON(impCase{Ops: []string{desc}}), Detail: strings.Join(probs, "\n")})
				}
			}
		}
	}
}

// c06Fragments: references to the File's own path and to a dot-imported path rendered as
// stand-alone fragments with the File: bare names, for every constructor, prefix on/off, before and
// after a File.Render.
func c06Fragments(r *ev.Recorder) {
	for _, ctor := range []string{"NewFilePath", "NewFilePathName"} {
		for variant := 0; variant < 8; variant++ {
			var f *jen.File
			if ctor == "NewFilePath" {
				f = jen.NewFilePath("a.b/shapes")
			} else {
				f = jen.NewFilePathName("a.b/shapes", "shapes")
			}
			if variant&1 != 0 {
				f.PackagePrefix = "pp"
			}
			f.ImportAlias("x.y/dot", ".")
			f.Var().Id("v").Op("=").Qual("a.b/shapes", "Square").Values()
			if variant&2 != 0 {
				jh.RenderFile(f)
			}
			for _, path := range []string{"a.b/shapes", "x.y/dot"} {
				var o jh.Outcome
				if variant&4 != 0 {
					o = jh.Catch(func() (string, error) {
						var b strings.Builder
						var grp *jen.Group
						jen.CustomFunc(jen.Options{}, func(g *jen.Group) { g.Qual(path, "Square"); grp = g })
						err := grp.RenderWithFile(&b, f)
						return b.String(), err
					})
				} else {
					o = jh.Catch(func() (string, error) {
						var b strings.Builder
						err := jen.Qual(path, "Square").RenderWithFile(&b, f)
						return b.String(), err
					})
				}
				r.Eval(1)
				desc := fmt.Sprintf("Qual(%q, Square) rendered with a File made by %s(a.b/shapes) that dot-imports x.y/dot (variant %03b)", path, ctor, variant)
				r.Distinct(desc)
				if !o.OK() || strings.TrimSpace(o.Out) != "Square" {
					r.Violate(ev.Violation{Signature: "c06:fragment:" + path, What: fmt.Sprintf("%s renders %q, want the bare name", desc, o), Case: ev.JSON(impCase{Ops: []string{desc}})})
				}
			}
		}
	}
}

func init() {
	register(&Check{ID: "C06", Level: "model_checking", Run: func(r *ev.Recorder) {
		r.Rule = "(1) explicit-state BFS over one real File created with NewFilePath(\"a.b/c\"): references (plain and as Dict key) to the local path, a near miss and three other paths, ImportName, ImportAlias(p, \".\"), ImportAlias(p, d1) and Anon(p) for every path, PackagePrefix, in every order up to the depth bound. " +
			"(2) canonical pre-render histories for 6 local-path families (local path a.b/c, c, x/y/c/, x/foo/v2, a.b/c_test, encoding/json; optionally after a 70-entry ImportNames table that names the same paths; near misses: trailing slash, prefix, suffix, case, last element only) via NewFilePath and NewFilePathName: every reference sequence, every subset of paths declared dot-imports (last hint wins; double hints and hints after the references included), prefix on/off, within the deviation bound. " +
			"Oracle on the parsed output: a reference to the local path is a bare identifier and no spec imports it; a reference to a path whose last hint is ImportAlias(p, \".\") is bare and exactly one spec `. \"p\"` exists; every other reference is qualified and its path imported under a name; go/types resolves every identifier (bare ones through the fabricated dot-imported package). " +
			"(4) references to the local and to a dot-imported path as stand-alone fragments rendered with the File: bare. (3) scale: 0..260 ordinary imports (sizes around powers of two) before or after 1-3 dot-imports and a local reference, prefix on/off. distinct_nontrivial = distinct outputs containing at least one bare reference"
		r.Assume = []string{"the dot-import status of a path is decided by the last hint given before the first render; a path rendered bare once stays a dot-import whatever is hinted afterwards (one scenario option re-hints after a render)", "histories beyond the depth / deviation bounds are outside the bound"}
		c06Check.run(r)
		c06Scale(r)
		c06Fragments(r)
	}, Replay: c06Check.replay})
}
