package checks

import (
	"encoding/json"
	"fmt"
	"go/token"
	"go/types"
	"sort"
	"strings"

	"github.com/dave/jennifer/jen"

	"verif/internal/ev"
	"verif/internal/explore"
	"verif/internal/imp"
	"verif/internal/jh"
)

// C05: import names are unique and legal for any path, hint and prefix.

func init() {
	register(&Check{ID: "C05", Level: "exploration", Run: runC05, Replay: replayC05})
}

type c05Case struct {
	Kind   string   `json:"kind"` // reserved | path | family
	Word   string   `json:"word,omitempty"`
	Place  int      `json:"place,omitempty"`
	Extra  int      `json:"competitors,omitempty"`
	Perm   int      `json:"perm,omitempty"`
	Prefix string   `json:"prefix,omitempty"`
	Path   string   `json:"path,omitempty"`
	Double int      `json:"double,omitempty"`
	Family string   `json:"family,omitempty"`
	Vector []int    `json:"vector,omitempty"`
	Ops    []string `json:"operations,omitempty"`
}

// c05Judge: names legal and unique, plus everything resolves (a shared name shows up as a
// redeclaration, an illegal one as a parse or type error).
func c05Judge(w *imp.World) []string {
	a, msg := renderAnalyze(w)
	if a == nil {
		return []string{msg}
	}
	probs := imp.CheckNames(a, w)
	probs = append(probs, imp.CheckResolve(a, w)...)
	return probs
}

var c05Words = func() []string {
	var ws []string
	for t := token.Token(0); t < 200; t++ {
		if t.IsKeyword() {
			ws = append(ws, t.String())
		}
	}
	ws = append(ws, types.Universe.Names()...)
	sort.Strings(ws)
	return ws
}()

var c05Places = []string{"last path element", "ImportName hint", "ImportAlias hint", "ImportNames hint"}

// c05Reserved builds: the word in one placement, plus 0-2 competitors for the same base name,
// referenced in the given order.
func c05Reserved(c c05Case) *imp.World {
	word := c.Word
	main := "x/q0"
	names := map[string]string{}
	if c.Place == 0 {
		main = "x/" + word
	}
	if c.Place == 1 || c.Place == 3 {
		names[main] = word
	}
	paths := []string{main}
	for i := 0; i < c.Extra; i++ {
		paths = append(paths, fmt.Sprintf("y%d/%s", i, word))
	}
	w := imp.New("NewFile", "", imp.DefaultTrueName(names))
	switch c.Place {
	case 1:
		w.Name(main)
	case 2:
		w.Alias(main, word)
	case 3:
		w.Names(main)
	}
	if c.Prefix != "" {
		w.Prefix(c.Prefix)
	}
	perm := explore.Perms(len(paths))[c.Perm]
	for _, i := range perm {
		w.Ref(paths[i], 0)
	}
	return w
}

// c05NumberedBases: every base b such that b followed by a decimal number is a predeclared name.
func c05NumberedBases() []string {
	set := map[string]bool{}
	for _, n := range types.Universe.Names() {
		i := len(n)
		for i > 0 && n[i-1] >= '0' && n[i-1] <= '9' {
			i--
			if i > 0 && i < len(n) && n[i] != '0' {
				set[n[:i]] = true
			}
		}
	}
	var out []string
	for b := range set {
		out = append(out, b)
	}
	sort.Strings(out)
	return out
}

// c05Numbered: k paths whose last element (place 0) or ImportName hint (place 1) is the base.
func c05Numbered(c c05Case) *imp.World {
	names := map[string]string{}
	var paths []string
	for i := 0; i < c.Extra; i++ {
		if c.Place == 0 {
			paths = append(paths, fmt.Sprintf("y%d/%s", i, c.Word))
		} else {
			p := fmt.Sprintf("y%d/q", i)
			paths = append(paths, p)
			names[p] = c.Word
		}
	}
	w := imp.New("NewFile", "", imp.DefaultTrueName(names))
	if c.Prefix != "" {
		w.Prefix(c.Prefix)
	}
	for _, p := range paths {
		if c.Place == 1 {
			w.Name(p)
		}
		w.Ref(p, 0)
	}
	return w
}

// c05Many: n paths p<i>/f plus math/rand, crypto/rand; variant bits: 1 = reverse order,
// 2 = prefix, 4 = ImportNames table for every third path.
func c05Many(c c05Case) *imp.World {
	names := map[string]string{}
	var paths []string
	for i := 0; i < c.Extra; i++ {
		p := fmt.Sprintf("p%d/f", i)
		paths = append(paths, p)
		if i%3 == 0 {
			names[p] = "f"
		}
	}
	paths = append(paths, "math/rand", "crypto/rand")
	w := imp.New("NewFile", "", imp.DefaultTrueName(names))
	if c.Perm&4 != 0 {
		var hinted []string
		for p := range names {
			hinted = append(hinted, p)
		}
		sort.Strings(hinted)
		w.Names(hinted...)
	}
	if c.Perm&2 != 0 {
		w.Prefix("pkg")
	}
	for round := 0; round < 2; round++ {
		for i := range paths {
			k := i
			if c.Perm&1 != 0 {
				k = len(paths) - 1 - i
			}
			w.Ref(paths[k], 0)
		}
	}
	w.Log = w.Log[:3] // the full operation list is too long to print
	return w
}

// the character classes guessAlias distinguishes
// (the last two: number characters that are no decimal digits - allowed in no identifier)
var c05Classes = []string{"a", "B", "1", "/", ".", "-", "_", "é", "٣", "İ", "²", "Ⅳ"}

const c05CoreClasses = 10 // strings of the maximal length are built over the first ten classes only

func c05PathWorld(c c05Case) *imp.World {
	w := imp.New("NewFile", "", imp.DefaultTrueName(nil))
	if c.Prefix != "" {
		w.Prefix(c.Prefix)
	}
	w.Ref(c.Path, 0)
	switch c.Double {
	case 1:
		w.Ref("x/"+c.Path, 0)
	case 2:
		w.Ref("x/"+c.Path, 0)
		w.Ref("y/z/"+c.Path, 0)
	}
	return w
}

var c05Families = []*family{
	{name: "f", ctors: []string{"NewFile"}, paths: []string{"a/f", "b/f", "c/F", "x/f1", "y/f2", "z/1f", "w/pkg_f"},
		names:   map[string]string{"a/f": "f", "b/f": "f", "c/F": "f", "x/f1": "f1", "y/f2": "f2", "z/1f": "f", "w/pkg_f": "pkg_f"},
		aliases: []string{"f", "f1", "pkg_f", "pkg_f1"}, prefixes: []string{"pkg", "pkg_"}, maxRefs: 4, freeRefs: 4, wrappers: []int{0}, anon: false, oneDict: true, lateAlias: true},
	{name: "rand", ctors: []string{"NewFile"}, paths: []string{"math/rand", "crypto/rand", "x/rand", "y/rand1", "z/rand2"},
		names:   map[string]string{"x/rand": "rand", "y/rand1": "rand1", "z/rand2": "rand2"},
		aliases: []string{"rand", "rand1"}, prefixes: []string{"p"}, maxRefs: 4, freeRefs: 4, wrappers: []int{0}, anon: true},
	{name: "many-names", ctors: []string{"NewFile"}, paths: []string{"x/bar", "x/foo", "x/zed", "y/baz", "w/zed", "v/foo"},
		names:   map[string]string{},
		aliases: []string{"zed"}, prefixes: []string{"p"}, maxRefs: 5, freeRefs: 5, wrappers: []int{0, imp.WrapperIndex("dictvalue"), imp.WrapperIndex("dictkey")}, anon: false, oneDict: true},
	{name: "unsafe", ctors: []string{"NewFile"}, paths: []string{"unsafe", "x/unsafe", "internal/unsafeheader", "y/Unsafe", "fmt"},
		names:   map[string]string{"x/unsafe": "unsafe", "internal/unsafeheader": "unsafeheader", "y/Unsafe": "unsafe"},
		aliases: []string{"unsafe", "unsafe1"}, prefixes: []string{"p"}, maxRefs: 4, freeRefs: 4, wrappers: []int{0}, anon: true},
	{name: "cgo", ctors: []string{"NewFile"}, paths: []string{"C", "b/C", "c/C", "fmt"},
		names:   map[string]string{"b/C": "C", "c/C": "C"},
		aliases: []string{"C", "C1"}, prefixes: []string{"p"}, maxRefs: 4, freeRefs: 4, wrappers: []int{0}, anon: true, preambleOpts: [][]string{nil, {"#include <a.h>"}}},
}

func runC05(r *ev.Recorder) {
	maxLen, dev := 5, 2
	if r.Tier == ev.Thorough {
		maxLen, dev = 6, 4
		r.SetDeadline(45 * 60 * 1e9)
	} else {
		r.SetDeadline(6 * 60 * 1e9)
	}
	r.Rule = fmt.Sprintf("(i) every Go keyword (go/token) and every universe-scope name of the installed toolchain (%d words) x placement {last path element, ImportName, ImportAlias, ImportNames} "+
		"x prefix on/off x 0..2 competing paths with the same last element x every reference order; (ii) every path string of length 1..%d over the %d character classes guessAlias distinguishes "+
		"(lower, upper, ASCII digit, '/', '.', '-', '_', non-ASCII letter, non-ASCII digit, a letter whose lower-casing changes length; below the maximal length also a superscript digit and a letter-number, which no identifier may contain), alone, doubled and tripled (same last element), prefix on/off; "+
		"(iv) every base b such that b<number> is predeclared (int, uint, float3, complex12, ...) with 1..10 competing paths (by last element / by ImportName), prefix on/off; (iii) path families competing for one base name (one of them with many distinct names and references inside Dict keys/values): every reference sequence of length <= 4 in every order with <= %d non-default settings (hints, Anon, prefix). "+
		"(vii) the paths of every family as stand-alone fragments rendered with one File, every ordered subset of up to 3, prefix on/off: qualifiers legal and distinct. Oracle on the parsed output: every written import name satisfies token.IsIdentifier, is no keyword and not in types.Universe; no two specs share an effective name; go/types reports no error. "+
		"distinct_nontrivial = distinct outputs in which jennifer had to rename (some spec carries an alias)", len(c05Words), maxLen, len(c05Classes), dev)
	r.Assume = []string{"keywords and predeclared identifiers are taken from go/token and go/types of the installed toolchain, never from jennifer",
		"path strings longer than the bound or with characters outside the 10 classes are outside the bound"}

	judge := func(w *imp.World, c c05Case, sig string) {
		r.Eval(1)
		a, msg := renderAnalyze(w)
		var probs []string
		if a == nil {
			probs = []string{msg}
		} else {
			probs = append(imp.CheckNames(a, w), imp.CheckResolve(a, w)...)
			for _, s := range a.Specs {
				if s.Name != "" && s.Name != "_" {
					r.Distinct(a.Src)
					break
				}
			}
		}
		if len(probs) > 0 {
			c.Ops = w.Log
			r.Violate(ev.Violation{Signature: sig + ":" + problemKind(probs[0]), What: fmt.Sprintf("%v: %s", w.Log, probs[0]), Case: ev.JSON(c), Detail: strings.Join(probs, "\n")})
		}
	}

	// (i)
	var rcases []c05Case
	for _, word := range c05Words {
		for place := range c05Places {
			for extra := 0; extra <= 2; extra++ {
				for perm := range explore.Perms(extra + 1) {
					for _, prefix := range []string{"", "pkg"} {
						rcases = append(rcases, c05Case{Kind: "reserved", Word: word, Place: place, Extra: extra, Perm: perm, Prefix: prefix})
					}
				}
			}
		}
	}
	explore.Range(int64(len(rcases)), 0, r.Expired, func(_ int, i int64) {
		c := rcases[i]
		w := c05Reserved(c)
		judge(w, c, "c05:reserved:"+c05Places[c.Place])
		if i%997 == 0 && r.WantSample() {
			r.Sample(map[string]any{"operations": w.Log, "output": w.Render().Out})
		}
	})
	r.Count("reserved_word_cases", int64(len(rcases)))

	// (iv) numbered candidates that are themselves predeclared: k paths competing for a base name
	// whose numbered successors include int8, uint16, float32, complex128, ...
	for _, base := range c05NumberedBases() {
		for k := 1; k <= 10; k++ {
			for place := 0; place < 2; place++ {
				for _, prefix := range []string{"", "pkg"} {
					c := c05Case{Kind: "numbered", Word: base, Extra: k, Place: place, Prefix: prefix}
					judge(c05Numbered(c), c, "c05:numbered")
				}
			}
		}
	}

	// (vi) a File rendered, then extended IN FRONT of what was rendered (through a statement the
	// caller kept), rendered again: still no two paths with one name
	for variant := 0; variant < 8; variant++ {
		w := imp.New("NewFile", "", imp.DefaultTrueName(map[string]string{"x/foo": "foo", "y/foo": "foo"}))
		head := jen.Var().Id("_").Op("=").Id("Zid").Call(jen.Lit(1))
		w.F.Add(head)
		if variant&1 != 0 {
			w.Prefix("pkg")
		}
		if variant&2 != 0 {
			w.Names("x/foo", "y/foo")
		}
		w.Ref("x/foo", 0)
		if variant&4 != 0 {
			w.Ref("fmt", 0)
		}
		first := w.Render()
		n := len(w.Refs)
		w.Refs = append(w.Refs, imp.Ref{Path: "y/foo", Sym: fmt.Sprintf("R%d", n), Wrapper: "head", Rendered: true})
		head.Op("+").Qual("y/foo", fmt.Sprintf("R%d", n))
		w.Log = append(w.Log, "File.Render", "first declaration += Qual(y/foo)", "File.Render")
		c := c05Case{Kind: "rerender", Perm: variant}
		if !first.OK() {
			r.Violate(ev.Violation{Signature: "c05:rerender:first-render-failed", What: fmt.Sprintf("%v: %s", w.Log, first), Case: ev.JSON(c)})
			continue
		}
		judge(w, c, "c05:rerender")
	}

	// (vii) the paths of a family rendered as stand-alone fragments with ONE File, in every order of
	// every subset of up to three paths, prefix on/off: the qualifiers shown are legal and distinct
	for _, fam := range c05Families {
		var subsets [][]string
		for i, a := range fam.paths {
			subsets = append(subsets, []string{a})
			for j, b := range fam.paths {
				if j == i {
					continue
				}
				subsets = append(subsets, []string{a, b})
				for k, c := range fam.paths {
					if k != i && k != j {
						subsets = append(subsets, []string{a, b, c})
					}
				}
			}
		}
		for _, seq := range subsets {
			for _, prefix := range []string{"", "pkg"} {
				f := jen.NewFile("p")
				f.PackagePrefix = prefix
				shown := map[string]string{}
				msg := ""
				for _, p := range seq {
					o := jh.Catch(func() (string, error) {
						var b strings.Builder
						err := jen.Qual(p, "X").RenderWithFile(&b, f)
						return b.String(), err
					})
					if !o.OK() {
						msg = fmt.Sprintf("fragment Qual(%q) fails: %s", p, jh.Short(o.String(), 120))
						break
					}
					q := strings.TrimSuffix(strings.TrimSpace(o.Out), ".X")
					if p != "C" {
						if why := imp.IllegalName(q); why != "" {
							msg = fmt.Sprintf("fragment Qual(%q) is qualified by %q, which is %s", p, q, why)
						}
					}
					if other, dup := shown[q]; dup && other != p {
						msg = fmt.Sprintf("fragments for %q and %q are both qualified by %q", other, p, q)
					}
					shown[q] = p
				}
				r.Eval(1)
				r.Distinct(fmt.Sprintf("fragments:%s:%v:%s", fam.name, seq, prefix))
				if msg != "" {
					r.Violate(ev.Violation{Signature: "c05:fragments:" + fam.name + ":" + problemKind(msg), What: fmt.Sprintf("fragments Qual(p, X) for %v rendered with one File (prefix %q): %s", seq, prefix, msg), Case: ev.JSON(c05Case{Kind: "rerender", Family: fam.name}), Detail: msg})
				}
			}
		}
	}

	// (v) many imports in one File: N paths with the same last element (plus two std packages called
	// rand), referenced forwards and backwards, each twice, prefix on/off, with and without a
	// name table of the same size
	for _, n := range []int{12, 40, 130, 400} {
		for variant := 0; variant < 8; variant++ {
			c := c05Case{Kind: "many", Extra: n, Perm: variant}
			judge(c05Many(c), c, "c05:many-imports")
		}
	}

	// (ii)
	// every string of length < maxLen over all classes, and of length maxLen over the core classes
	var total int64
	pow := int64(1)
	offsets := []int64{0}
	bases := []int64{0}
	for l := 1; l <= maxLen; l++ {
		n := int64(len(c05Classes))
		if l == maxLen {
			n = c05CoreClasses
			pow = 1
			for i := 0; i < l; i++ {
				pow *= n
			}
		} else {
			pow *= n
		}
		total += pow
		offsets = append(offsets, total)
		bases = append(bases, n)
	}
	done := explore.Range(total, 0, r.Expired, func(_ int, i int64) {
		l := 1
		for i >= offsets[l] {
			l++
		}
		j := i - offsets[l-1]
		n := bases[l]
		var sb strings.Builder
		for k := 0; k < l; k++ {
			sb.WriteString(c05Classes[j%n])
			j /= n
		}
		p := sb.String()
		for double := 0; double <= 2; double++ {
			for _, prefix := range []string{"", "pkg"} {
				if double == 2 && prefix != "" {
					continue
				}
				c := c05Case{Kind: "path", Path: p, Double: double, Prefix: prefix}
				judge(c05PathWorld(c), c, "c05:path")
			}
		}
	})
	r.Count("path_strings", total)
	if !done {
		r.NotExhaustive("deadline inside the path-string enumeration")
	}

	// (iii)
	perFam := map[string]any{}
	for _, fam := range c05Families {
		fam := fam
		st := explore.Explore(explore.Options{MaxDev: dev, Stop: r.Expired}, func(c *explore.Ctx) {
			w := fam.scenario(c)
			judge(w, c05Case{Kind: "family", Family: fam.name, Vector: c.Vector()}, "c05:family:"+fam.name)
		})
		perFam[fam.name] = map[string]any{"executions": st.Executions, "per_deviation_level": st.PerLevel, "complete": st.Complete}
		if !st.Complete {
			r.NotExhaustive("family " + fam.name + " stopped at the deadline")
		}
	}
	r.Note("families", perFam)
}

func replayC05(raw json.RawMessage) (bool, string) {
	var c c05Case
	if err := json.Unmarshal(raw, &c); err != nil {
		return true, "bad case"
	}
	var w *imp.World
	switch c.Kind {
	case "reserved":
		w = c05Reserved(c)
	case "path":
		w = c05PathWorld(c)
	case "numbered":
		w = c05Numbered(c)
	case "many":
		w = c05Many(c)
	case "rerender":
		return true, "the re-render cases are replayed by running the check"
	case "family":
		fam := familyByName(c05Families, c.Family)
		if fam == nil {
			return true, "unknown family"
		}
		w = fam.scenario(explore.NewReplay(c.Vector))
	default:
		return true, "unknown kind"
	}
	log := append([]string(nil), w.Log...)
	probs := c05Judge(w)
	return len(probs) == 0, fmt.Sprintf("operations %v:\n%s\noutput:\n%s", log, strings.Join(probs, "\n"), w.Render().String())
}
