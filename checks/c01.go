package checks

import (
	"encoding/json"
	"fmt"
	"os"
	"path/filepath"
	"sort"
	"strings"
	"sync"

	"github.com/dave/jennifer/jen"

	"verif/internal/a2j"
	"verif/internal/ev"
	"verif/internal/explore"
)

// C01: faithful rendering - any Go program built through the DSL re-parses to itself.

func init() {
	register(&Check{ID: "C01", Level: "exploration", Run: runC01, Replay: replayC01})
}

type c01Case struct {
	Kind   string `json:"kind"` // corpus | gen
	File   string `json:"file,omitempty"`
	Vector []int  `json:"vector,omitempty"`
	Early  bool   `json:"early_add_and_func_forms,omitempty"`
	Desc   string `json:"description"`
}

func c01Hooks(early bool) a2j.Hooks {
	if early {
		hosts := map[string]bool{"Block": true, "Defs": true, "Struct": true, "Interface": true}
		return a2j.Hooks{EarlyAdd: true, CloneShared: true, LitViaFunc: true, NamesTable: true, UseFunc: func(int, string) bool { return true },
			// comments may differ between the trees: put some in, built the way generators build doc text
			Items: func(site int, name string, items []jen.Code) []jen.Code {
				if !hosts[name] || site%3 != 0 {
					return items
				}
				return append([]jen.Code{jen.Commentf("%s %s", "generated:", "first line\nsecond line"), jen.Commentf("site %d", site)}, items...)
			}}
	}
	return a2j.Hooks{}
}

func c01Roots(tier ev.Tier) []string {
	repo := os.Getenv("VERIF_REPO")
	if repo == "" {
		repo = "/repo"
	}
	roots := []string{filepath.Join(defaultGoroot, "src"), repo}
	if tier == ev.Thorough {
		if _, err := os.Stat("/opt/veriftools/go1.26.8/src"); err == nil {
			roots = append(roots, "/opt/veriftools/go1.26.8/src")
		}
	}
	return roots
}

func runC01(r *ev.Recorder) {
	if r.Tier == ev.Thorough {
		r.SetDeadline(50 * 60 * 1e9)
	} else {
		r.SetDeadline(8 * 60 * 1e9)
	}
	r.Rule = "(i) corpus: every .go file (testdata and _ directories excluded) below GOROOT/src of the installed toolchain and below the repository itself (thorough: also /opt/veriftools/go1.26.8/src) - a complete enumeration of a fixed finite set in sorted order - " +
		"is parsed, translated construct by construct into DSL calls (internal/a2j: the element the README documents for each construct), rendered with File.Render, re-parsed, and both trees compared in canonical form " +
		"(internal/norm: positions, comments, redundant parentheses and empty statements dropped; literals by value; all-keyed composite literals as key-sorted lists and conventional struct tags as key-sorted maps, the documented ordering of Dict and Tag). " +
		"Every fourth file (thorough: every file) is also translated with each declaration added to the File before it is completed, with the ...Func variant at every list site, with every selector chain a.b.c built once and Clone()d at each use, with the package names stated through one ImportNames table that is overwritten right afterwards, and with every literal built through LitFunc/LitRuneFunc from a callback reading a cursor that is overwritten straight after the constructing call. Another fourth of the files (thorough: every file) is rendered with File.NoFormat and the raw text re-parsed. (ii) generated programs: see coverage.generated; and 13 deep or long shapes (else-if chains, nested calls / parentheses / blocks / function literals / composite literals / switches, operand and selector chains) of 25..800 links. Skips are counted with their reason, never silent. distinct_nontrivial = distinct files / programs translated and compared (each contains at least one declaration)"
	r.Assume = []string{"files with dot imports are skipped (uses of a dot import cannot be found syntactically), as are files importing one path twice (not expressible: the import table is keyed by path) and files that do not parse",
		"go/parser, go/printer and go/constant define syntax trees and literal values"}

	var mu sync.Mutex
	kinds := map[string]int64{}
	skipReasons := map[string]int64{}
	var sites, decls int64
	for _, root := range c01Roots(r.Tier) {
		files := goFilesBelow(root)
		goroot := defaultGoroot
		if strings.HasPrefix(root, "/opt/veriftools/go1.26.8") {
			goroot = "/opt/veriftools/go1.26.8"
		}
		res := newResolver(goroot)
		r.Count("corpus_files:"+root, int64(len(files)))
		explore.Range(int64(len(files)), 0, r.Expired, func(_ int, i int64) {
			path := files[i]
			src, err := os.ReadFile(path)
			if err != nil {
				return
			}
			b := roundTrip(path, src, res.name, a2j.Hooks{})
			r.Eval(1)
			if b.Kind == "ok" && (r.Tier == ev.Thorough || i%4 == 0) {
				// the same file with every declaration added to the File BEFORE it is completed, with the
				// ...Func variant at every list-construct site, and with every selector chain built once
				// and cloned at each use
				b2 := roundTrip(path, src, res.name, c01Hooks(true))
				r.Eval(1)
				if b2.Kind != "ok" {
					b = b2
					b.Kind += "(early-add+Func-forms)"
				}
			}
			if b.Kind == "ok" && (r.Tier == ev.Thorough || i%4 == 1) {
				// and with File.NoFormat: the raw rendering re-parses to the same tree
				b3 := roundTrip(path, src, res.name, a2j.Hooks{NoFormat: true})
				r.Eval(1)
				if b3.Kind != "ok" {
					b = b3
					b.Kind += "(NoFormat)"
				}
			}
			rel := strings.TrimPrefix(path, root+"/")
			mu.Lock()
			kinds[b.Kind]++
			if strings.HasPrefix(b.Kind, "skip-") {
				reason := b.Kind
				if b.Kind == "skip-translator" {
					reason += ": " + b.Detail
				}
				skipReasons[reason]++
			}
			sites += int64(b.Sites)
			decls += int64(b.Decls)
			mu.Unlock()
			if b.Kind == "ok" && b.Decls > 0 {
				r.Distinct(path)
			}
			if b.violation() {
				desc := fmt.Sprintf("%s: %s: %s", rel, b.Kind, b.Detail)
				r.Violate(ev.Violation{Signature: "c01:corpus:" + b.Kind + ":" + rel, What: desc, Case: ev.JSON(c01Case{Kind: "corpus", File: path, Early: strings.Contains(b.Kind, "early-add"), Desc: desc}), Detail: b.Detail})
			}
			if i%1500 == 7 && r.WantSample() {
				r.Sample(map[string]any{"file": rel, "result": b.Kind, "declarations": b.Decls, "list_construct_sites": b.Sites})
			}
		})
	}
	// File.Save of translated programs over an existing, longer file: the saved file is the program
	if dir, err := os.MkdirTemp("", "verif-c01-"); err == nil {
		root := c01Roots(r.Tier)[0]
		files := goFilesBelow(root)
		res := newResolver(defaultGoroot)
		target := filepath.Join(dir, "saved.go")
		saved := 0
		for i := 0; i < len(files) && saved < 40; i += 97 {
			src, err := os.ReadFile(files[i])
			if err != nil {
				continue
			}
			os.WriteFile(target, append(append([]byte("package stale\n\n"), src...), src...), 0o644)
			b := roundTripSave(files[i], src, res.name, target)
			if b.Kind == "" {
				continue
			}
			saved++
			r.Eval(1)
			if b.violation() {
				desc := fmt.Sprintf("%s translated and written with File.Save over a longer file: %s: %s", strings.TrimPrefix(files[i], root+"/"), b.Kind, b.Detail)
				r.Violate(ev.Violation{Signature: "c01:save:" + b.Kind, What: desc, Case: ev.JSON(c01Case{Kind: "save", File: files[i], Desc: desc}), Detail: b.Detail})
			}
		}
		os.RemoveAll(dir)
		r.Count("programs_written_with_Save", int64(saved))
	}
	r.Note("corpus_results", kinds)
	r.Note("corpus_skips_by_reason", skipReasons)
	r.Note("corpus_declarations_compared", decls)
	r.Note("corpus_list_construct_sites", sites)
	var total, skipped int64
	for k, n := range kinds {
		total += n
		if strings.HasPrefix(k, "skip-") {
			skipped += n
		}
	}
	if total > 0 && skipped*100 > total*8 {
		fmt.Fprintf(os.Stderr, "C01: %d of %d corpus files skipped - the bridge is vacuous\n", skipped, total)
		os.Exit(2)
	}
	c01Generated(r)
}

func replayC01(raw json.RawMessage) (bool, string) {
	var c c01Case
	if err := json.Unmarshal(raw, &c); err != nil {
		return true, "bad case"
	}
	switch c.Kind {
	case "corpus":
		src, err := os.ReadFile(c.File)
		if err != nil {
			return true, "corpus file not readable"
		}
		goroot := defaultGoroot
		if strings.HasPrefix(c.File, "/opt/veriftools/go1.26.8") {
			goroot = "/opt/veriftools/go1.26.8"
		}
		b := roundTrip(c.File, src, newResolver(goroot).name, c01Hooks(c.Early))
		return !b.violation(), fmt.Sprintf("%s: %s %s", c.File, b.Kind, b.Detail)
	case "save":
		return true, "the Save cases are replayed by running the check"
	case "gen":
		return c01ReplayGenerated(c)
	}
	return true, "unknown kind"
}

var _ = sort.Strings
