package checks

import (
	"bytes"
	"encoding/json"
	"errors"
	"fmt"
	"io"
	"os"
	"path/filepath"
	"sort"
	"strings"
	"sync"
	"syscall"
	"time"

	"github.com/dave/jennifer/jen"

	"verif/internal/ev"
	"verif/internal/explore"
	"verif/internal/jh"
)

// C10: failure atomicity and error propagation for Render and Save. Fault enumeration: every
// answer sequence of the writer (ok / error / short write + error at every call) x every entry
// point x valid and invalid trees; every filesystem situation for Save.

func init() {
	register(&Check{ID: "C10", Level: "fault_enumeration", Run: runC10, Replay: replayC10})
}

type c10Tree struct {
	name  string
	valid bool
	// mayPanic: rendering this tree is documented to panic (an unsupported Lit type); a panic
	// that reaches the caller is then as good as an error - but nothing may have been written
	mayPanic bool
	// build returns a statement usable both as a fragment and as the only item of a File body
	build func() *jen.Statement
}

var c10Trees = []c10Tree{
	{"var", true, false, func() *jen.Statement { return jen.Var().Id("x").Op("=").Lit(1) }},
	{"func", true, false, func() *jen.Statement {
		return jen.Func().Id("f").Params().Block(jen.Qual("fmt", "Println").Call(jen.Lit("a")), jen.Return())
	}},
	{"type-comment", true, false, func() *jen.Statement {
		return jen.Type().Id("T").Struct(jen.Id("A").Int().Comment("a"), jen.Id("B").Qual("a/b", "C")).Line().Comment("done")
	}},
	{"big", true, false, func() *jen.Statement {
		return jen.Func().Id("g").Params().BlockFunc(func(g *jen.Group) {
			for i := 0; i < 1500; i++ {
				g.Id(fmt.Sprintf("v%d", i)).Op(":=").Lit(strings.Repeat("x", 40))
				g.Id("_").Op("=").Id(fmt.Sprintf("v%d", i))
			}
		})
	}},
	{"empty-func", true, false, func() *jen.Statement { return jen.Func().Id("e").Params().Block() }},
	{"dict", true, false, func() *jen.Statement {
		return jen.Var().Id("m").Op("=").Map(jen.String()).Int().Values(jen.Dict{jen.Lit("a"): jen.Lit(1), jen.Lit("b"): jen.Qual("x/y", "Z")})
	}},
	{"bad-brace", false, false, func() *jen.Statement { return jen.Var().Id("x").Op("=").Op("{") }},
	{"bad-func", false, false, func() *jen.Statement { return jen.Func().Params().Op("}").Block(jen.Return()) }},
	{"bad-keyword", false, false, func() *jen.Statement { return jen.Var().Var().Id("x") }},
	{"bad-big", false, false, func() *jen.Statement {
		return jen.Func().Id("g").Params().BlockFunc(func(g *jen.Group) {
			for i := 0; i < 6000; i++ {
				g.Id(fmt.Sprintf("v%d", i)).Op(":=").Lit(i)
			}
			g.Op(")")
		})
	}},
	{"bad-huge", false, false, func() *jen.Statement {
		// more than 1 MiB of source, invalid only at the very end
		return jen.Const().DefsFunc(func(g *jen.Group) {
			for i := 0; i < 12000; i++ {
				g.Id(fmt.Sprintf("K%d", i)).Op("=").Lit(strings.Repeat("x", 100))
			}
			g.Op(")").Id("oops")
		})
	}},
	{"bad-call", false, false, func() *jen.Statement { return jen.Var().Id("x").Op("=").Id("f").Call(jen.Op(";")).Op("(") }},
	{"bad-string", false, false, func() *jen.Statement { return jen.Var().Id("x").Op("=").Op(`"unterminated`) }},
	// a tree that fails while it is being rendered, after text that is valid Go by itself
	{"bad-late-panic", false, true, func() *jen.Statement {
		return jen.Var().Id("x").Op("=").Lit(1).Line().Lit(struct{ A int }{1})
	}},
	// invalid compositions that render as one word
	{"bad-lone-keyword", false, false, func() *jen.Statement { return jen.Func() }},
	{"bad-identifier", false, false, func() *jen.Statement { return jen.Id("9x") }},
	{"bad-dotted-word", false, false, func() *jen.Statement { return jen.Id("a.") }},
}

type c10Entry struct {
	name string
	file bool
	run  func(t c10Tree, noFormat bool, w io.Writer) error
}

func c10File(t c10Tree, noFormat bool) *jen.File {
	f := jen.NewFile("p")
	f.NoFormat = noFormat
	f.Add(t.build())
	return f
}

// c10Group obtains a *Group holding the tree (Groups can only be got hold of through callbacks).
func c10Group(t c10Tree) *jen.Group {
	var grp *jen.Group
	jen.CustomFunc(jen.Options{Multi: true}, func(g *jen.Group) {
		g.Add(t.build())
		grp = g
	})
	return grp
}

var c10Entries = []c10Entry{
	{"File.Render", true, func(t c10Tree, nf bool, w io.Writer) error { return c10File(t, nf).Render(w) }},
	{"Statement.Render", false, func(t c10Tree, nf bool, w io.Writer) error { return t.build().Render(w) }},
	{"Statement.RenderWithFile", false, func(t c10Tree, nf bool, w io.Writer) error {
		return t.build().RenderWithFile(w, jen.NewFilePathName("a/b", "b"))
	}},
	{"Group.Render", false, func(t c10Tree, nf bool, w io.Writer) error { return c10Group(t).Render(w) }},
	{"Group.RenderWithFile", false, func(t c10Tree, nf bool, w io.Writer) error {
		return c10Group(t).RenderWithFile(w, jen.NewFilePathName("a/b", "b"))
	}},
	// (a fragment is formatted whatever the File's NoFormat says)
	{"Statement.RenderWithFile(NoFormat File)", false, func(t c10Tree, nf bool, w io.Writer) error {
		f := jen.NewFile("b")
		f.NoFormat = true
		return t.build().RenderWithFile(w, f)
	}},
	{"Group.RenderWithFile(NoFormat File)", false, func(t c10Tree, nf bool, w io.Writer) error {
		f := jen.NewFile("b")
		f.NoFormat = true
		return c10Group(t).RenderWithFile(w, f)
	}},
}

// injected is the error a faulty writer returns: a value of its own that wraps one of the error
// identities real writers fail with (so that errors.Is / errors.As see through it).
type injected struct {
	call  int
	under error
}

func (e *injected) Error() string {
	return fmt.Sprintf("injected writer fault at call %d: %v", e.call, e.under)
}
func (e *injected) Unwrap() error { return e.under }

var c10ErrKinds = []struct {
	name string
	err  error
}{
	{"plain", errors.New("disk on fire")},
	{"EPIPE", &os.PathError{Op: "write", Path: "|1", Err: syscall.EPIPE}},
	{"io.ErrClosedPipe", io.ErrClosedPipe},
	{"io.ErrShortWrite", io.ErrShortWrite},
	{"io.EOF", io.EOF},
	{"os.ErrClosed", os.ErrClosed},
	{"ENOSPC", &os.PathError{Op: "write", Path: "out.go", Err: syscall.ENOSPC}},
	{"EAGAIN", syscall.EAGAIN},
	{"EINTR", syscall.EINTR},
}

// faultWriter answers every Write call as the explorer decides.
type faultWriter struct {
	c       *explore.Ctx
	calls   int
	buf     bytes.Buffer
	faults  []*injected
	answers []string
}

func (w *faultWriter) Write(p []byte) (int, error) {
	w.calls++
	switch w.c.Choose(3) {
	case 1:
		k := c10ErrKinds[w.c.ChooseCost(len(c10ErrKinds), 0)]
		e := &injected{w.calls, k.err}
		w.faults = append(w.faults, e)
		w.answers = append(w.answers, "error("+k.name+")")
		return 0, e
	case 2:
		k := c10ErrKinds[w.c.ChooseCost(len(c10ErrKinds), 0)]
		e := &injected{w.calls, k.err}
		w.faults = append(w.faults, e)
		n := len(p) / 2
		w.buf.Write(p[:n])
		w.answers = append(w.answers, fmt.Sprintf("short(%d of %d)+error(%s)", n, len(p), k.name))
		return n, e
	}
	w.buf.Write(p)
	w.answers = append(w.answers, "ok")
	return len(p), nil
}

type c10Case struct {
	Kind     string `json:"kind"` // writer | save
	Entry    int    `json:"entry"`
	Tree     int    `json:"tree"`
	NoFormat bool   `json:"no_format"`
	Vector   []int  `json:"writer_answers,omitempty"`
	Target   int    `json:"save_target,omitempty"`
	Desc     string `json:"description"`
}

// c10Writer runs one (entry, tree, format, answer vector) execution; "" = holds.
func c10Writer(c *explore.Ctx, ei, ti int, nf bool) (msg string, fw *faultWriter) {
	e, t := c10Entries[ei], c10Trees[ti]
	// reference: what the same tree renders into a plain buffer
	var ref bytes.Buffer
	refOut := jh.Catch(func() (string, error) { err := e.run(t, nf, &ref); return "", err })
	fw = &faultWriter{c: c}
	o := jh.Catch(func() (string, error) { return "", e.run(t, nf, fw) })
	if o.Panic != nil {
		if t.mayPanic {
			if fw.calls != 0 {
				return fmt.Sprintf("rendering panicked (%v) but the writer had received %d call(s), %d bytes", o.Panic, fw.calls, fw.buf.Len()), fw
			}
			return "", fw
		}
		return fmt.Sprintf("panic: %v", o.Panic), fw
	}
	if refOut.Panic != nil && !t.mayPanic {
		return fmt.Sprintf("reference render panicked: %v", refOut.Panic), fw
	}
	if !t.valid {
		// an invalid composition must be reported, and nothing may have been written
		// (with NoFormat a File is not formatted, so invalid text is legitimately written as is)
		if e.file && nf {
			return "", fw
		}
		if o.Err == nil {
			return "invalid composition rendered without error", fw
		}
		if fw.calls != 0 {
			return fmt.Sprintf("rendering failed (%s) but the writer received %d call(s), %d bytes", jh.Short(o.Err.Error(), 80), fw.calls, fw.buf.Len()), fw
		}
		return "", fw
	}
	if refOut.Err != nil {
		return "reference render of a valid tree failed: " + jh.Short(refOut.Err.Error(), 200), fw
	}
	if len(fw.faults) > 0 {
		if o.Err == nil {
			return fmt.Sprintf("the writer failed (answers %v) but nil was returned", fw.answers), fw
		}
		ok := false
		for _, f := range fw.faults {
			if errors.Is(o.Err, f) {
				ok = true
			}
		}
		if !ok {
			return fmt.Sprintf("the writer's error was not returned: got %q", jh.Short(o.Err.Error(), 120)), fw
		}
		return "", fw
	}
	if o.Err != nil {
		return "no fault injected but an error was returned: " + jh.Short(o.Err.Error(), 200), fw
	}
	if !bytes.Equal(fw.buf.Bytes(), ref.Bytes()) {
		return fmt.Sprintf("the writer received %d bytes in %d calls that differ from the %d bytes rendered into a buffer", fw.buf.Len(), fw.calls, ref.Len()), fw
	}
	return "", fw
}

// ---- Save

type c10Target struct {
	name string
	// prepare creates the situation in dir and returns the file name to Save to
	prepare func(dir string) string
	// expectErr: Save of a VALID tree must fail
	expectErr bool
	existing  string // known previous content ("" = target does not exist as regular file)
	outside   bool   // target outside the temp dir (device files)
}

var c10Old = "OLD CONTENT " + strings.Repeat("o", 30000) + "\n"

var c10Targets = []c10Target{
	{"absent", func(d string) string { return filepath.Join(d, "out.go") }, false, "", false},
	{"existing-longer-than-output", func(d string) string {
		p := filepath.Join(d, "out.go")
		os.WriteFile(p, []byte(c10Old), 0o644)
		return p
	}, false, c10Old, false},
	{"existing-short", func(d string) string {
		p := filepath.Join(d, "out.go")
		os.WriteFile(p, []byte("x\n"), 0o644)
		return p
	}, false, "x\n", false},
	{"directory", func(d string) string {
		p := filepath.Join(d, "out.go")
		os.Mkdir(p, 0o755)
		return p
	}, true, "", false},
	{"missing-parent", func(d string) string { return filepath.Join(d, "no", "such", "out.go") }, true, "", false},
	{"parent-is-file", func(d string) string {
		os.WriteFile(filepath.Join(d, "plain"), []byte("plain\n"), 0o644)
		return filepath.Join(d, "plain", "out.go")
	}, true, "", false},
	{"name-too-long", func(d string) string { return filepath.Join(d, strings.Repeat("n", 300)+".go") }, true, "", false},
	// a private "always full" character device (1,7), so that a tree under test that replaces its
	// target can never damage the system's /dev/full; "" when the node cannot be made here
	{"dev-full", func(d string) string {
		p := filepath.Join(d, "full-device")
		if err := syscall.Mknod(p, syscall.S_IFCHR|0o666, 1<<8|7); err != nil {
			return ""
		}
		if f, err := os.OpenFile(p, os.O_WRONLY, 0); err != nil {
			return ""
		} else {
			_, werr := f.Write([]byte("x"))
			f.Close()
			if werr == nil {
				return "" // not the full device after all
			}
		}
		return p
	}, true, "", false},
	{"symlink-to-existing", func(d string) string {
		os.WriteFile(filepath.Join(d, "real.go"), []byte(c10Old), 0o644)
		os.Symlink(filepath.Join(d, "real.go"), filepath.Join(d, "out.go"))
		return filepath.Join(d, "out.go")
	}, false, c10Old, false},
}

func dirListing(dir string) string {
	var names []string
	filepath.Walk(dir, func(p string, info os.FileInfo, err error) error {
		if err == nil && p != dir {
			names = append(names, strings.TrimPrefix(p, dir))
		}
		return nil
	})
	sort.Strings(names)
	return strings.Join(names, ",")
}

var c10SkippedTargets sync.Map

func c10Save(ti, gi int, nf bool) string {
	t, g := c10Trees[ti], c10Targets[gi]
	if g.outside {
		if _, err := os.Stat(g.prepare("")); err != nil {
			return "" // device not available here: nothing to check
		}
	}
	dir, err := os.MkdirTemp("", "verif-c10-")
	if err != nil {
		return ""
	}
	defer os.RemoveAll(dir)
	target := g.prepare(dir)
	if target == "" {
		c10SkippedTargets.Store(g.name, true)
		return "" // situation cannot be set up here: nothing to check
	}
	listing := dirListing(dir)
	var before os.FileInfo
	if g.existing != "" {
		before, _ = os.Stat(target)
		// make a later modification time distinguishable
		old := time.Now().Add(-time.Hour)
		os.Chtimes(target, old, old)
		before, _ = os.Stat(target)
	}
	var ref bytes.Buffer
	refOut := jh.Catch(func() (string, error) { return "", c10File(t, nf).Render(&ref) })
	refErr := refOut.Err
	if refOut.Panic != nil {
		refErr = fmt.Errorf("panic: %v", refOut.Panic)
	}
	o := jh.Catch(func() (string, error) { return "", c10File(t, nf).Save(target) })
	if o.Panic != nil {
		if !t.mayPanic {
			return fmt.Sprintf("Save panicked: %v", o.Panic)
		}
		o.Err = fmt.Errorf("panic: %v", o.Panic) // as good as an error; what follows checks that nothing was touched
	}
	failedRender := refErr != nil
	if failedRender || g.expectErr {
		if o.Err == nil {
			if failedRender {
				return "rendering fails for this tree but Save returned nil"
			}
			return "Save returned nil although the target cannot be written (" + g.name + ")"
		}
	}
	if failedRender {
		// nothing may have been touched
		if g.existing != "" {
			b, err := os.ReadFile(target)
			if err != nil || string(b) != g.existing {
				return fmt.Sprintf("rendering failed but the existing target changed (now %d bytes, read error %v)", len(b), err)
			}
			after, _ := os.Stat(target)
			if before != nil && after != nil && !after.ModTime().Equal(before.ModTime()) {
				return "rendering failed but the existing target's modification time changed"
			}
		}
		if !g.outside && dirListing(dir) != listing {
			return fmt.Sprintf("rendering failed but the directory changed: %q -> %q", listing, dirListing(dir))
		}
		return ""
	}
	if g.expectErr {
		if !g.outside && dirListing(dir) != listing {
			return fmt.Sprintf("Save failed (%v) but the directory changed: %q -> %q", o.Err, listing, dirListing(dir))
		}
		return ""
	}
	if o.Err != nil {
		return "Save of a valid tree to a writable target failed: " + jh.Short(o.Err.Error(), 200)
	}
	b, err := os.ReadFile(target)
	if err != nil {
		return "Save returned nil but the file cannot be read: " + err.Error()
	}
	if !bytes.Equal(b, ref.Bytes()) {
		return fmt.Sprintf("Save returned nil but the file holds %d bytes that differ from the %d bytes rendered (previous content %d bytes)", len(b), ref.Len(), len(g.existing))
	}
	return ""
}

// ---- sequences of fragment renders that share one File (a failure must not leak into the next)

type c10Step struct {
	tree int
	fail bool // the writer fails at its first call
}

var c10Steps = []c10Step{{0, false}, {0, true}, {6, false}, {4, false}, {2, false}, {2, true}, {8, false}, {1, false}}

// c10Sequence runs the steps with one shared File through entry (1 = Statement.RenderWithFile,
// 2 = Group.RenderWithFile) and compares every successful step with a render using a fresh File
// that went through the same successful steps.
func c10Sequence(group bool, seq []int) string {
	shared := jen.NewFilePathName("a/b", "b")
	run := func(f *jen.File, t c10Tree, w io.Writer) error {
		if group {
			return c10Group(t).RenderWithFile(w, f)
		}
		return t.build().RenderWithFile(w, f)
	}
	var okSteps []int
	for si, k := range seq {
		st := c10Steps[k]
		t := c10Trees[st.tree]
		var got bytes.Buffer
		var w io.Writer = &got
		if st.fail {
			w = failFirst{}
		}
		o := jh.Catch(func() (string, error) { return "", run(shared, t, w) })
		if o.Panic != nil {
			return fmt.Sprintf("step %d (%s) panics: %v", si+1, t.name, o.Panic)
		}
		switch {
		case !t.valid || st.fail:
			if o.Err == nil {
				return fmt.Sprintf("step %d (%s, failing writer %v) returned nil", si+1, t.name, st.fail)
			}
		default:
			if o.Err != nil {
				return fmt.Sprintf("step %d (%s) failed after earlier steps on the same File: %s", si+1, t.name, jh.Short(o.Err.Error(), 200))
			}
			// reference: a fresh File that saw the earlier SUCCESSFUL steps only
			ref := jen.NewFilePathName("a/b", "b")
			for _, p := range okSteps {
				run(ref, c10Trees[c10Steps[p].tree], io.Discard)
			}
			var want bytes.Buffer
			if err := run(ref, t, &want); err != nil {
				return "reference render failed: " + err.Error()
			}
			if got.String() != want.String() {
				return fmt.Sprintf("step %d (%s) wrote %q; with a File that did not see the failed steps it writes %q", si+1, t.name, jh.Short(got.String(), 200), jh.Short(want.String(), 200))
			}
			okSteps = append(okSteps, k)
		}
	}
	return ""
}

type failFirst struct{}

func (failFirst) Write(p []byte) (int, error) { return 0, errors.New("writer closed") }

// c10SaveSequence: one File saved to one path several times while something else rewrites the
// path in between; after every successful Save the file holds exactly the rendered output.
// c10RepeatedFailures: a File that cannot be rendered is rendered and saved again and again - every
// attempt must fail, write nothing and leave the target alone (an answer remembered from a failed
// attempt must not turn into success).
func c10RepeatedFailures() []string {
	var problems []string
	files := []struct {
		name string
		mk   func() *jen.File
	}{
		{"a package comment that swallows the package clause", func() *jen.File {
			f := jen.NewFile("p")
			f.PackageComment("/* open")
			f.Var().Id("x").Op("=").Lit(1)
			f.Comment("closed */")
			return f
		}},
		{"a header comment that swallows the package clause", func() *jen.File {
			f := jen.NewFile("p")
			f.HeaderComment("/* open")
			f.Comment("closed */")
			f.Var().Id("x").Op("=").Lit(1)
			return f
		}},
		{"an unbalanced body", func() *jen.File {
			f := jen.NewFile("p")
			f.Var().Id("x").Op("=").Op("{")
			return f
		}},
	}
	dir, err := os.MkdirTemp("", "verif-c10r-")
	if err != nil {
		return nil
	}
	defer os.RemoveAll(dir)
	for _, fc := range files {
		f := fc.mk()
		target := filepath.Join(dir, "out.go")
		os.WriteFile(target, []byte(c10Old), 0o644)
		for attempt := 1; attempt <= 4; attempt++ {
			w := &countWriter{}
			o := jh.Catch(func() (string, error) { return "", f.Render(w) })
			switch {
			case o.Panic != nil:
				problems = append(problems, fmt.Sprintf("%s: Render attempt %d panics: %v", fc.name, attempt, o.Panic))
			case o.Err == nil:
				problems = append(problems, fmt.Sprintf("%s: Render attempt %d returned nil and wrote %q", fc.name, attempt, jh.Short(w.buf.String(), 120)))
			case w.calls != 0:
				problems = append(problems, fmt.Sprintf("%s: Render attempt %d failed but wrote %d bytes", fc.name, attempt, w.buf.Len()))
			}
			so := jh.Catch(func() (string, error) { return "", f.Save(target) })
			b, _ := os.ReadFile(target)
			switch {
			case so.Panic != nil:
				problems = append(problems, fmt.Sprintf("%s: Save attempt %d panics: %v", fc.name, attempt, so.Panic))
			case so.Err == nil:
				problems = append(problems, fmt.Sprintf("%s: Save attempt %d returned nil", fc.name, attempt))
			case string(b) != c10Old:
				problems = append(problems, fmt.Sprintf("%s: Save attempt %d failed but the target now holds %d bytes", fc.name, attempt, len(b)))
			}
			if len(problems) > 0 {
				break
			}
		}
	}
	return problems
}

func c10SaveSequence() []string {
	var problems []string
	dir, err := os.MkdirTemp("", "verif-c10s-")
	if err != nil {
		return nil
	}
	defer os.RemoveAll(dir)
	target := filepath.Join(dir, "out.go")
	mk := func(v int) *jen.File {
		f := jen.NewFile("p")
		f.Var().Id("x").Op("=").Lit(v)
		return f
	}
	a := mk(41)
	var want bytes.Buffer
	a.Render(&want)
	check := func(step string) {
		b, err := os.ReadFile(target)
		if err != nil || !bytes.Equal(b, want.Bytes()) {
			problems = append(problems, fmt.Sprintf("%s: Save returned nil but the file holds %q, want %q", step, jh.Short(string(b), 80), jh.Short(want.String(), 80)))
		}
	}
	steps := []struct {
		name  string
		write func()
	}{
		{"first Save", func() {}},
		{"Save again, nothing changed", func() {}},
		{"Save after another File of the same size was saved to the path", func() { mk(42).Save(target) }},
		{"Save after a same-size edit of the file", func() { os.WriteFile(target, bytes.Replace(want.Bytes(), []byte("41"), []byte("99"), 1), 0o644) }},
		{"Save after the file was truncated", func() { os.WriteFile(target, nil, 0o644) }},
		{"Save after the file grew", func() { os.WriteFile(target, append(append([]byte{}, want.Bytes()...), "// tail\n"...), 0o644) }},
		{"Save after the file was removed", func() { os.Remove(target) }},
	}
	for _, st := range steps {
		st.write()
		if err := a.Save(target); err != nil {
			problems = append(problems, st.name+": Save failed: "+err.Error())
			continue
		}
		check(st.name)
	}
	return problems
}

func runC10(r *ev.Recorder) {
	r.SetDeadline(10 * 60 * 1e9)
	r.Rule = fmt.Sprintf("writer faults: %d entry points (File.Render with formatting on/off, Statement.Render, Statement.RenderWithFile, Group.Render, Group.RenderWithFile) x %d trees (6 valid, 6 invalid, of different sizes) x EVERY answer sequence of the writer "+
		"(each Write call answered ok / error / short write + error, the error wrapping one of 9 identities real writers fail with - a plain error, EPIPE and ENOSPC as *os.PathError, io.ErrClosedPipe, io.ErrShortWrite, io.EOF, os.ErrClosed, EAGAIN, EINTR; explored exhaustively by the choice-point explorer - whatever number of calls the implementation makes). Oracle: invalid tree => error and ZERO writer calls; "+
		"any injected fault => the returned error Is that fault (never nil); no fault => concatenated writes equal the bytes the same tree renders into a bytes.Buffer. "+
		"Sequences: every sequence of 2 and 3 fragment renders (Statement / Group RenderWithFile; valid and invalid trees; good and failing writer) that share ONE File: a failed step must leave no trace - every successful step writes what a File that saw only the successful steps writes. Three Files that cannot be rendered (comments swallowing the package clause, an unbalanced body) rendered and saved four times each: every attempt fails, writes nothing, leaves the target alone. Save: %d trees x %d filesystem situations (absent, existing longer/shorter than the output, directory, missing parent, parent is a file, name too long, a private 'always full' character device, symlink) x formatting on/off. "+
		"Oracle: failed render => error, existing target byte-identical with unchanged mtime, directory listing unchanged; unwritable target => error and unchanged listing; success => file content exactly the rendered bytes. "+
		"distinct_nontrivial = distinct executions with at least one injected fault, an invalid tree, or an fs situation other than 'absent'", len(c10Entries), len(c10Trees), len(c10Trees), len(c10Targets))
	r.Assume = []string{"the sandbox runs as root: permission faults (EACCES) cannot be produced; the other causes are", "an io.Writer that returns n < len(p) also returns an error (its contract)"}

	for ei := range c10Entries {
		for ti := range c10Trees {
			for _, nf := range []bool{false, true} {
				if nf && !c10Entries[ei].file {
					continue
				}
				ei, ti, nf := ei, ti, nf
				st := explore.Explore(explore.Options{MaxDev: -1, Workers: 4, Stop: r.Expired, MaxExec: 100000}, func(c *explore.Ctx) {
					msg, fw := c10Writer(c, ei, ti, nf)
					r.Eval(1)
					desc := fmt.Sprintf("%s tree=%s noFormat=%v writer answers=%v", c10Entries[ei].name, c10Trees[ti].name, nf, fw.answers)
					if len(fw.faults) > 0 || !c10Trees[ti].valid {
						r.Distinct(desc)
					}
					r.Count("writer_calls_observed", int64(fw.calls))
					if msg != "" {
						r.Violate(ev.Violation{Signature: "c10:writer:" + c10Entries[ei].name + ":" + problemKind(msg), What: desc + ": " + msg,
							Case: ev.JSON(c10Case{Kind: "writer", Entry: ei, Tree: ti, NoFormat: nf, Vector: c.Vector(), Desc: desc}), Detail: msg})
					}
					if ti == 1 && len(fw.faults) > 0 && r.WantSample() {
						r.Sample(desc)
					}
				})
				if !st.Complete {
					r.NotExhaustive("writer answer tree not exhausted for " + c10Entries[ei].name)
				}
			}
		}
	}
	// sequences on one shared File
	nst := len(c10Steps)
	for _, group := range []bool{false, true} {
		for l := 2; l <= 3; l++ {
			total := 1
			for i := 0; i < l; i++ {
				total *= nst
			}
			for code := 0; code < total; code++ {
				seq := make([]int, l)
				c := code
				hasFailure := false
				for i := range seq {
					seq[i] = c % nst
					c /= nst
					if st := c10Steps[seq[i]]; st.fail || !c10Trees[st.tree].valid {
						hasFailure = true
					}
				}
				msg := c10Sequence(group, seq)
				r.Eval(1)
				var names []string
				for _, k := range seq {
					names = append(names, fmt.Sprintf("%s(failing writer=%v)", c10Trees[c10Steps[k].tree].name, c10Steps[k].fail))
				}
				desc := fmt.Sprintf("fragment renders sharing one File (Group=%v): %v", group, names)
				if hasFailure {
					r.Distinct(desc)
				}
				if msg != "" {
					r.Violate(ev.Violation{Signature: "c10:sequence:" + problemKind(msg), What: desc + ": " + msg,
						Case: ev.JSON(c10Case{Kind: "sequence", Entry: map[bool]int{false: 1, true: 2}[group], Vector: seq, Desc: desc}), Detail: msg})
				}
			}
		}
	}
	for _, msg := range c10SaveSequence() {
		r.Violate(ev.Violation{Signature: "c10:save-sequence", What: "one File saved repeatedly to one path: " + msg, Case: ev.JSON(c10Case{Kind: "savesequence", Desc: msg}), Detail: msg})
	}
	r.Eval(7)
	r.Distinct("save-sequence")
	for _, msg := range c10RepeatedFailures() {
		r.Violate(ev.Violation{Signature: "c10:repeated-failure:" + problemKind(msg), What: "one unrenderable File rendered and saved four times: " + msg, Case: ev.JSON(c10Case{Kind: "savesequence", Desc: msg}), Detail: msg})
	}
	r.Eval(24)
	r.Distinct("repeated-failures")
	for ti := range c10Trees {
		for gi := range c10Targets {
			for _, nf := range []bool{false, true} {
				msg := c10Save(ti, gi, nf)
				r.Eval(1)
				desc := fmt.Sprintf("File.Save tree=%s target=%s noFormat=%v", c10Trees[ti].name, c10Targets[gi].name, nf)
				if gi != 0 || !c10Trees[ti].valid {
					r.Distinct(desc)
				}
				if msg != "" {
					r.Violate(ev.Violation{Signature: "c10:save:" + c10Targets[gi].name + ":" + problemKind(msg), What: desc + ": " + msg,
						Case: ev.JSON(c10Case{Kind: "save", Tree: ti, Target: gi, NoFormat: nf, Desc: desc}), Detail: msg})
				}
				if ti == 6 && r.WantSample() {
					r.Sample(desc)
				}
			}
		}
	}
	var skipped []string
	c10SkippedTargets.Range(func(k, _ any) bool { skipped = append(skipped, k.(string)); return true })
	if len(skipped) > 0 {
		sort.Strings(skipped)
		r.Note("save_situations_that_could_not_be_set_up_here", skipped)
		r.NotExhaustive("some filesystem situations could not be set up (see coverage.save_situations_that_could_not_be_set_up_here)")
	}
}

func replayC10(raw json.RawMessage) (bool, string) {
	var c c10Case
	if err := json.Unmarshal(raw, &c); err != nil {
		return true, "bad case"
	}
	var msg string
	if c.Kind == "save" {
		msg = c10Save(c.Tree, c.Target, c.NoFormat)
	} else if c.Kind == "savesequence" {
		msg = strings.Join(c10SaveSequence(), "; ")
	} else if c.Kind == "sequence" {
		msg = c10Sequence(c.Entry == 2, c.Vector)
	} else {
		msg, _ = c10Writer(explore.NewReplay(c.Vector), c.Entry, c.Tree, c.NoFormat)
	}
	return msg == "", c.Desc + ": " + msg
}
