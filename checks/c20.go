package checks

import (
	"bytes"
	"encoding/json"
	"fmt"
	"sort"
	"strings"
	"sync"

	"github.com/dave/jennifer/jen"

	"verif/internal/ev"
	"verif/internal/imp"
	"verif/internal/jh"
	"verif/internal/statespace"
)

// C20: Clone isolation. E2 search over a pool of statements: appends of 1, 2 and 3 tokens to any
// statement of the pool, and cloning any statement of the pool (clones of clones included),
// against a list model.

func init() {
	register(&Check{ID: "C20", Level: "model_checking", Run: runC20, Replay: replayC20})
}

var c20KindNames = []string{"Id", "Dot", "Add3", "Call", "Clone", "RenderWithSharedFile", "Tag", "Line", "Case", "Block", "AddSpread", "QualSameName", "DoAppendAndCloneInside", "LitFuncCounting", "GroupAddThenExtendResult"}

// Two alphabets (operation kinds on any pool member) with their pool sizes: the general one, and
// one of clause-like tokens whose rendering depends on their neighbours (Line, Case, Block).
// The third alphabet: items spread from ONE caller-owned list (with a nil in the middle) that every
// such operation of the history reuses, and qualified identifiers whose paths differ per statement
// but share the package name.
var c20Alphabets = [][]int{{0, 1, 2, 3, 4, 5, 6}, {0, 1, 7, 8, 9, 4}, {0, 3, 10, 11, 4, 12, 13, 14}}
var c20Pools = []int{4, 3, 3}

// the alphabet in force (searches run one after another)
var (
	c20Alpha = c20Alphabets[0]
	c20Pool  = c20Pools[0]
)

func c20Use(alphabet int) {
	c20Alpha, c20Pool = c20Alphabets[alphabet], c20Pools[alphabet]
}

func c20HasKind(k int) bool {
	for _, x := range c20Alpha {
		if x == k {
			return true
		}
	}
	return false
}

func c20Kind(op int) int { return c20Alpha[op%len(c20Alpha)] }

// c20NullRoot selects the original the pool starts with: Id(r), or an empty one (Null()).
var c20NullRoot bool

// c20Tok is one token-appending operation applied to a statement.
type c20Tok struct {
	kind int
	name string
}

func c20Apply(s *jen.Statement, t c20Tok) {
	switch t.kind {
	case 0:
		s.Id(t.name)
	case 1:
		s.Dot(t.name)
	case 2:
		s.Add(jen.Id(t.name+"a"), jen.Id(t.name+"b"), jen.Id(t.name+"c"))
	case 3:
		s.Call(jen.Id(t.name))
	case 6:
		s.Tag(map[string]string{t.name: "v"})
	case 7:
		s.Line()
	case 8:
		s.Case(jen.Id(t.name))
	case 9:
		s.Block(jen.Id(t.name))
	case 10:
		s.Add(jen.Id("sa"), nil, jen.Id("sb"), jen.Id("sc"))
	case 13:
		// a literal from a callback that answers differently every time it is asked
		n := 0
		name := t.name
		s.LitFunc(func() interface{} { n++; return fmt.Sprintf("%s#%d", name, n) })
	case 11:
		// name = t<statement>_<n>: the path is particular to the statement, the package name is not
		s.Qual("p"+t.name[1:strings.Index(t.name, "_")]+"/codec", "X"+t.name)
	}
}

var c20Twins sync.Map // "root|kind:name,..." -> raw rendering of a statement built without any Clone

// c20Twin renders a statement built from scratch - the root original (root) or an empty statement
// - by the given operations, with no Clone involved: the reference for what those tokens look like.
func c20Twin(root bool, toks []c20Tok) string {
	if !root && len(toks) == 0 {
		return ""
	}
	var sb strings.Builder
	fmt.Fprintf(&sb, "%v/%v|", root, c20NullRoot)
	for _, t := range toks {
		fmt.Fprintf(&sb, "%d:%s,", t.kind, t.name)
	}
	if v, ok := c20Twins.Load(sb.String()); ok {
		return v.(string)
	}
	st := &jen.Statement{}
	if root {
		st = c20Root()
	}
	for _, t := range toks {
		c20Apply(st, t)
	}
	out := c20Render(st)
	c20Twins.Store(sb.String(), out)
	return out
}

func c20Root() *jen.Statement {
	if c20NullRoot {
		return jen.Null()
	}
	return jen.Id("r")
}

type c20Model struct {
	parent   int
	own      []c20Tok
	snap     map[string]bool // acceptable renderings of the parent at clone time
	snapFlat []c20Tok        // the parent's tokens (flattened over its ancestry) at clone time
}

type c20World struct {
	spread []jen.Code // the caller-owned list that every AddSpread of the history spreads
	stmts  []*jen.Statement
	model  []*c20Model
	lastOp int
	shared *jen.File // one File used by every RenderWithFile of the history
}

func c20OpName(op int) string {
	return fmt.Sprintf("%s(s%d)", c20KindNames[c20Kind(op)], op/len(c20Alpha))
}

func c20Hist(hist []int) []string {
	var out []string
	for _, op := range hist {
		out = append(out, c20OpName(op))
	}
	return out
}

// flat: the tokens of statement i flattened over its ancestry as it is now.
func (w *c20World) flat(i int) []c20Tok {
	m := w.model[i]
	if m.parent < 0 {
		return m.own
	}
	return append(append([]c20Tok(nil), w.flat(m.parent)...), m.own...)
}

// accept: the acceptable raw renderings of statement i. The reference for how tokens look is the
// implementation itself on statements built without Clone (differential): the original must render
// like a twin built by the same appends; a clone like its parent (as of clone time or as of now)
// followed by its own tokens as they render alone, or like a twin on which the parent's and its
// own appends were made directly (the two differ only where a token's look depends on its
// predecessor, e.g. a Block after a Case).
func (w *c20World) accept(i int) map[string]bool {
	m := w.model[i]
	out := map[string]bool{}
	if m.parent < 0 {
		out[c20Twin(true, m.own)] = true
		return out
	}
	own := c20Twin(false, m.own)
	add := func(p string) {
		switch {
		case own == "":
			out[p] = true
		case p == "":
			out[own] = true
		default:
			out[p+" "+own] = true
		}
	}
	for p := range w.accept(m.parent) {
		add(p)
	}
	for p := range m.snap {
		add(p)
	}
	out[c20Twin(true, w.flat(i))] = true
	out[c20Twin(true, append(append([]c20Tok(nil), m.snapFlat...), m.own...))] = true
	return out
}

// c20Build replays a history; ok=false if the last operation is not enabled.
func c20Build(hist []int) (w *c20World, ok bool) {
	w = &c20World{lastOp: -1, shared: jen.NewFile("")}
	w.stmts = append(w.stmts, c20Root())
	w.model = append(w.model, &c20Model{parent: -1})
	for _, op := range hist {
		si, kind := op/len(c20Alpha), c20Kind(op)
		if si >= len(w.stmts) {
			return w, false
		}
		s, m := w.stmts[si], w.model[si]
		switch kind {
		case 4:
			if len(w.stmts) >= c20Pool {
				return w, false
			}
			c := s.Clone()
			w.stmts = append(w.stmts, c)
			w.model = append(w.model, &c20Model{parent: si, snap: w.accept(si), snapFlat: w.flat(si)})
		case 5:
			c20WithFile(s, w.shared)
		case 14:
			// the statement is added to a group and what Add returns is extended: the statement
			// itself is not
			jen.CustomFunc(jen.Options{}, func(g *jen.Group) { g.Add(s).Dot("Lock").Call() })
		case 12:
			// a token appended inside a Do callback, and a Clone of the callback's statement taken there
			if len(w.stmts) >= c20Pool {
				return w, false
			}
			t := c20Tok{0, fmt.Sprintf("t%d_%d", si, len(m.own))}
			var c *jen.Statement
			s.Do(func(x *jen.Statement) {
				x.Id(t.name)
				c = x.Clone()
			})
			m.own = append(m.own, t)
			w.stmts = append(w.stmts, c)
			w.model = append(w.model, &c20Model{parent: si, snap: w.accept(si), snapFlat: w.flat(si)})
		case 10:
			if w.spread == nil {
				w.spread = []jen.Code{jen.Id("sa"), nil, jen.Id("sb"), jen.Id("sc")}
			}
			s.Add(w.spread...)
			m.own = append(m.own, c20Tok{kind, "spread"})
		default:
			t := c20Tok{kind, fmt.Sprintf("t%d_%d", si, len(m.own))}
			c20Apply(s, t)
			m.own = append(m.own, t)
		}
		w.lastOp = op
	}
	return w, true
}

// c20WithFile renders a fragment with a File (formatted; invalid fragments give an error whose
// text contains the raw rendering - either way the full outcome is compared).
func c20WithFile(s *jen.Statement, f *jen.File) string {
	o := jh.Catch(func() (string, error) {
		var b bytes.Buffer
		err := s.RenderWithFile(&b, f)
		return b.String(), err
	})
	return o.String()
}

func c20Render(s *jen.Statement) string {
	o := jh.Raw(s)
	if !o.OK() {
		return o.String()
	}
	return o.Out
}

func (w *c20World) key() string {
	var sb strings.Builder
	sb.WriteString(imp.Key(w.shared))
	for i, s := range w.stmts {
		// (the reflection dump shows the nesting of the statement, which its rendering does not)
		fmt.Fprintf(&sb, "%d:%d:%d:%s:%s|", w.model[i].parent, len(*s), cap(*s), c20Render(s), imp.Key(s))
		// the oracle's own state belongs to the key: two histories that leave the same statements but
		// different sets of acceptable renderings (what the parent looked like at clone time) have
		// different futures as far as the invariant goes
		var snaps []string
		for p := range w.model[i].snap {
			snaps = append(snaps, p)
		}
		sort.Strings(snaps)
		fmt.Fprintf(&sb, "%q%d|", snaps, len(w.model[i].snapFlat))
	}
	return sb.String()
}

// c20Invariant returns "" or a description of the broken statement.
func c20Invariant(w *c20World, hist []int) string {
	// rendering is no operation on the statements: a history with RenderWithFile steps leaves every
	// statement rendering like the same history without them
	var plain []int
	for _, op := range hist {
		if c20Kind(op) != 5 {
			plain = append(plain, op)
		}
	}
	if len(plain) != len(hist) {
		if twin, ok := c20Build(plain); ok && len(twin.stmts) == len(w.stmts) {
			for i := range w.stmts {
				if a, b := c20Render(w.stmts[i]), c20Render(twin.stmts[i]); a != b {
					return fmt.Sprintf("s%d renders %q; after the same history without its RenderWithFile steps it renders %q", i, a, b)
				}
			}
		}
	}
	for i, s := range w.stmts {
		got := c20Render(s)
		acc := w.accept(i)
		if !acc[got] {
			var want []string
			for a := range acc {
				want = append(want, fmt.Sprintf("%q", a))
			}
			kind := "original"
			if w.model[i].parent >= 0 {
				kind = fmt.Sprintf("clone of s%d", w.model[i].parent)
			}
			return fmt.Sprintf("s%d (%s, len %d cap %d) renders %q, acceptable: %s", i, kind, len(*s), cap(*s), got, strings.Join(want, " or "))
		}
	}
	// rendering with the File shared by the history must equal rendering with a fresh File (not
	// in the alphabet with same-named packages, where a shared File rightly numbers them)
	for i, s := range w.stmts {
		if c20HasKind(11) {
			break
		}
		if a, b := c20WithFile(s, w.shared), c20WithFile(s, jen.NewFile("")); a != b {
			return fmt.Sprintf("s%d rendered with the File shared by the history gives %q, with a fresh File %q", i, a, b)
		}
	}
	// stand-alone rendering (GoString) agrees with rendering with a fresh File
	for i, s := range w.stmts {
		fresh := jh.Catch(func() (string, error) {
			var b bytes.Buffer
			err := s.RenderWithFile(&b, jen.NewFile(""))
			return b.String(), err
		})
		if !fresh.OK() {
			continue
		}
		if gs := jh.Catch(func() (string, error) { return s.GoString(), nil }); gs.Key() != fresh.Key() {
			return fmt.Sprintf("s%d: GoString gives %q, RenderWithFile with a fresh File %q", i, gs, fresh)
		}
	}
	if w.lastOp >= 0 && (c20Kind(w.lastOp) == 4 || c20Kind(w.lastOp) == 12) {
		c := len(w.stmts) - 1
		if a, b := c20Render(w.stmts[c]), c20Render(w.stmts[w.model[c].parent]); a != b {
			return fmt.Sprintf("fresh clone s%d renders %q, its original s%d renders %q", c, a, w.model[c].parent, b)
		}
	}
	return ""
}

func runC20(r *ev.Recorder) {
	depth := 6
	if r.Tier == ev.Thorough {
		depth = 8
		r.SetDeadline(40 * 60 * 1e9)
	} else {
		r.SetDeadline(5 * 60 * 1e9)
	}
	r.Rule = fmt.Sprintf("explicit-state BFS over the real Statement API: pool of <= %d statements (one original Id(r) plus clones, clones of clones included); operations on any pool member: "+
		"Id (1 token), Dot (2), Add(x,y,z) (3), Call (1 group), Tag (1), Clone, RenderWithFile with one File shared by the whole history; a second alphabet of tokens whose rendering depends on their neighbours - Id, Dot, Line, Case, Block (a clause body directly after a Case in the same statement; as the first token of a clone of a statement ending in Case both renderings are accepted), Clone - over a pool of 3; a third alphabet - Id, Call, Clone, Add(list...) of one caller-owned list with a nil in its middle that every such operation reuses, Qual with a path particular to the statement but a shared package name, and Do with a callback that appends a token and takes a Clone of the statement it was handed - over a pool of 3, with GoString compared to RenderWithFile(fresh File); two roots (Id(r) and an empty Null() original, the latter one level less deep); all histories of length <= %d, de-duplicated on (parent, len, cap, raw rendering, reflection dump of the statement's tree, the model's set of acceptable parent renderings at clone time) of every statement - the oracle's own state is part of the key, since histories that leave equal statements but different acceptable sets have different futures. "+
		"Invariant in every state (list model whose token texts come from twins built on the real API without any Clone): an original renders like a twin built by the same appends; a clone renders its parent (as of clone time or as of now - the property leaves that open) followed by its own tokens as they render alone, or like a twin on which the parent's and its own appends were made directly; "+
		"a fresh clone renders like its original; every statement rendered with the shared File equals its rendering with a fresh File; every statement renders like after the same history without its RenderWithFile steps. Plus chains of 2..1000 nested clones, and 1,820 nesting cases: originals of 1..13 items, two clones with tails of 0..3 items, one nested as a call argument inside the other at every position, rendered twice. Slice growth 1->2->4->8 makes cap > len reachable within 3 appends", c20Pool, depth)
	r.Assume = []string{"both snapshot and live-view semantics of Clone are accepted (the property does not choose)", "histories longer than the depth bound are outside the bound"}

	var states, transitions int64
	var perDepth [][]int64
	for ai := range c20Alphabets {
		for _, nullRoot := range []bool{false, true} {
			ai := ai
			c20Use(ai)
			c20NullRoot = nullRoot
			d := depth
			if nullRoot {
				d = depth - 1 // the second root is there for the interaction of emptiness with renders
			}
			res := statespace.Search(statespace.System{
				Tick:      r.Tick,
				NumOps:    c20Pool * len(c20Alpha),
				MaxDepth:  d,
				MaxStates: 40_000_000,
				Stop:      r.Expired,
				Step: func(hist []int) (string, bool) {
					w, ok := c20Build(hist)
					if !ok {
						return "", false
					}
					return w.key(), true
				},
				Invariant: func(hist []int) {
					w, _ := c20Build(hist)
					r.Eval(1)
					spare := false
					for _, s := range w.stmts {
						if cap(*s) > len(*s) {
							spare = true
						}
					}
					if len(w.stmts) > 1 && spare {
						r.Distinct(fmt.Sprint(nullRoot, ai) + w.key())
					}
					if len(hist) == 5 && r.WantSample() {
						r.Sample(map[string]any{"null_root": nullRoot, "history": c20Hist(hist), "statements": w.render()})
					}
					if msg := c20Invariant(w, hist); msg != "" {
						r.Violate(ev.Violation{Signature: "c20:" + c20KindNames[c20Kind(hist[len(hist)-1])], What: fmt.Sprintf("null root %v, after %v: %s", nullRoot, c20Hist(hist), msg),
							Case: ev.JSON(c20Case{NullRoot: nullRoot, Alphabet: ai, Hist: hist}), Detail: msg})
					}
				},
			})
			states += res.States
			transitions += res.Transitions
			perDepth = append(perDepth, res.PerDepth)
			if !res.Complete {
				r.NotExhaustive("search stopped before the depth bound")
			}
		}
	}
	c20Use(0)
	c20NullRoot = false
	r.Note("states", states)
	r.Note("transitions", transitions)
	r.Note("traces_validated_against_impl", transitions)
	r.Note("depth", depth)
	r.Note("states_per_depth_by_root", perDepth)
	r.Note("non_trivial_rule", "distinct_nontrivial counts states with at least one clone and at least one statement with spare capacity (cap > len), plus nesting cases")

	// nested clones: two clones of one original (of every length 1..13, so with and without spare
	// capacity), each with its own tail, one nested as a call argument inside the other's tail
	if r.Violations() > 0 {
		// a tree whose clones share storage can turn a nested clone into a cycle, and rendering a
		// cycle overflows the stack (unrecoverable): the search above has already reported
		r.NotExhaustive("nesting cases skipped because the search already found violations")
		return
	}
	for _, depth := range []int{2, 10, 99, 100, 101, 150, 1000} {
		for _, withTokens := range []bool{false, true} {
			msg := c20DeepChain(depth, withTokens)
			r.Eval(1)
			desc := fmt.Sprintf("chain of %d clones (token appended at every level: %v)", depth, withTokens)
			r.Distinct(desc)
			if msg != "" {
				r.Violate(ev.Violation{Signature: "c20:deep-chain", What: desc + ": " + msg, Case: ev.JSON(c20Case{Nested: []int{depth, map[bool]int{false: 0, true: 1}[withTokens]}}), Detail: msg})
			}
		}
	}
	for l := 1; l <= 13; l++ {
		for ta := 0; ta <= 3; ta++ {
			for tb := 0; tb <= 3; tb++ {
				for pos := 0; pos <= ta; pos++ {
					msg := c20Nested(l, ta, tb, pos)
					r.Eval(1)
					desc := fmt.Sprintf("original of %d items, clone A with %d own items, clone B with %d own items nested in A after A's item %d", l, ta, tb, pos)
					r.Distinct(desc)
					if msg != "" {
						r.Violate(ev.Violation{Signature: "c20:nested-clones", What: desc + ": " + msg, Case: ev.JSON(c20Case{Nested: []int{l, ta, tb, pos}}), Detail: msg})
					}
				}
			}
		}
	}
}

// c20DeepChain: a chain of `depth` clones, each (or none) with a token appended; the last clone,
// a middle one and the original must render per the list model.
func c20DeepChain(depth int, withTokens bool) string {
	cur := jen.Id("r")
	want := []string{"r"}
	var mid *jen.Statement
	var midWant string
	for i := 0; i < depth; i++ {
		cur = cur.Clone()
		if withTokens {
			n := fmt.Sprintf("t%d", i)
			cur.Id(n)
			want = append(want, n)
		}
		if i == depth/2 {
			mid, midWant = cur, strings.Join(want, " ")
		}
	}
	if got := c20Render(cur); got != strings.Join(want, " ") {
		return fmt.Sprintf("the last of %d nested clones renders %q, want %q", depth, jh.Short(got, 200), jh.Short(strings.Join(want, " "), 200))
	}
	if got := c20Render(mid); got != midWant {
		return fmt.Sprintf("clone %d of %d renders %q, want %q", depth/2, depth, jh.Short(got, 200), jh.Short(midWant, 200))
	}
	// inside a list the chain must still count as a real item
	if got, w := c20Render(jen.Id("f").Call(cur, jen.Id("z"))), "f ("+strings.Join(want, " ")+",z)"; got != w {
		return fmt.Sprintf("f(<chain of %d clones>, z) renders %q, want %q", depth, jh.Short(got, 200), jh.Short(w, 200))
	}
	return ""
}

// c20Nested builds h (l items), a = h.Clone()+ta items, b = h.Clone()+tb items, nests b as a call
// argument inside a after a's pos-th own item, and checks a, b and h against the list model.
func c20Nested(l, ta, tb, pos int) string {
	h := jen.Id("h0")
	hw := []string{"h0"}
	for i := 1; i < l; i++ {
		n := fmt.Sprintf("h%d", i)
		h.Id(n)
		hw = append(hw, n)
	}
	hs := strings.Join(hw, " ")
	b := h.Clone()
	bw := []string{hs}
	for i := 0; i < tb; i++ {
		n := fmt.Sprintf("b%d", i)
		b.Id(n)
		bw = append(bw, n)
	}
	bs := strings.Join(bw, " ")
	a := h.Clone()
	aw := []string{hs}
	for i := 0; i <= ta; i++ {
		if i == pos {
			a.Call(b)
			aw = append(aw, "("+bs+")")
		}
		if i < ta {
			n := fmt.Sprintf("a%d", i)
			a.Id(n)
			aw = append(aw, n)
		}
	}
	as := strings.Join(aw, " ")
	for round := 0; round < 2; round++ {
		if got := c20Render(a); got != as {
			return fmt.Sprintf("outer clone renders %q, want %q (render %d)", got, as, round+1)
		}
		if got := c20Render(b); got != bs {
			return fmt.Sprintf("nested clone renders %q, want %q (after the outer one was rendered, render %d)", got, bs, round+1)
		}
		if got := c20Render(h); got != hs {
			return fmt.Sprintf("original renders %q, want %q", got, hs)
		}
	}
	return ""
}

type c20Case struct {
	NullRoot bool  `json:"null_root"`
	Alphabet int   `json:"alphabet,omitempty"`
	Hist     []int `json:"history,omitempty"`
	Nested   []int `json:"nested,omitempty"`
}

func (w *c20World) render() []string {
	var out []string
	for _, s := range w.stmts {
		out = append(out, c20Render(s))
	}
	return out
}

func replayC20(raw json.RawMessage) (bool, string) {
	var c c20Case
	if err := json.Unmarshal(raw, &c); err != nil {
		return true, "bad case"
	}
	if len(c.Nested) == 2 {
		msg := c20DeepChain(c.Nested[0], c.Nested[1] == 1)
		return msg == "", fmt.Sprintf("deep chain %v: %s", c.Nested, msg)
	}
	if len(c.Nested) == 4 {
		msg := c20Nested(c.Nested[0], c.Nested[1], c.Nested[2], c.Nested[3])
		return msg == "", fmt.Sprintf("nested clones %v: %s", c.Nested, msg)
	}
	c20NullRoot = c.NullRoot
	if c.Alphabet < 0 || c.Alphabet >= len(c20Alphabets) {
		return true, "bad case"
	}
	c20Use(c.Alphabet)
	defer func() { c20NullRoot = false; c20Use(0) }()
	w, ok := c20Build(c.Hist)
	if !ok {
		return true, "history not enabled on this tree"
	}
	msg := c20Invariant(w, c.Hist)
	return msg == "", fmt.Sprintf("null root %v, history %v: %s", c.NullRoot, c20Hist(c.Hist), msg)
}
