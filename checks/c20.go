package checks

import (
	"encoding/json"
	"fmt"
	"strings"

	"github.com/dave/jennifer/jen"

	"verif/internal/ev"
	"verif/internal/jh"
	"verif/internal/statespace"
)

// C20: Clone isolation. E2 search over a pool of statements: appends of 1, 2 and 3 tokens to any
// statement of the pool, and cloning any statement of the pool (clones of clones included),
// against a list model.

func init() {
	register(&Check{ID: "C20", Level: "model_checking", Run: runC20, Replay: replayC20})
}

const (
	c20Pool  = 4
	c20Kinds = 5 // Id, Dot, Add x3, Call, Clone
)

var c20KindNames = []string{"Id", "Dot", "Add3", "Call", "Clone"}

type c20Model struct {
	parent int
	own    []string
	snap   map[string]bool // acceptable renderings of the parent at clone time
}

type c20World struct {
	stmts  []*jen.Statement
	model  []*c20Model
	lastOp int
}

func c20OpName(op int) string {
	return fmt.Sprintf("%s(s%d)", c20KindNames[op%c20Kinds], op/c20Kinds)
}

func c20Hist(hist []int) []string {
	var out []string
	for _, op := range hist {
		out = append(out, c20OpName(op))
	}
	return out
}

func (w *c20World) accept(i int) map[string]bool {
	m := w.model[i]
	own := strings.Join(m.own, " ")
	if m.parent < 0 {
		return map[string]bool{own: true}
	}
	out := map[string]bool{}
	add := func(p string) {
		switch {
		case own == "":
			out[p] = true
		case p == "":
			out[own] = true
		default:
			out[p+" "+own] = true
		}
	}
	for p := range w.accept(m.parent) {
		add(p)
	}
	for p := range m.snap {
		add(p)
	}
	return out
}

// c20Build replays a history; ok=false if the last operation is not enabled.
func c20Build(hist []int) (w *c20World, ok bool) {
	w = &c20World{lastOp: -1}
	w.stmts = append(w.stmts, jen.Id("r"))
	w.model = append(w.model, &c20Model{parent: -1, own: []string{"r"}})
	for _, op := range hist {
		si, kind := op/c20Kinds, op%c20Kinds
		if si >= len(w.stmts) {
			return w, false
		}
		s, m := w.stmts[si], w.model[si]
		name := func(k int) string { return fmt.Sprintf("t%d_%d", si, len(m.own)+k) }
		switch kind {
		case 0:
			n := name(0)
			s.Id(n)
			m.own = append(m.own, n)
		case 1:
			n := name(1)
			s.Dot(n)
			m.own = append(m.own, ".", n)
		case 2:
			a, b, c := name(0), name(1), name(2)
			s.Add(jen.Id(a), jen.Id(b), jen.Id(c))
			m.own = append(m.own, a, b, c)
		case 3:
			n := name(0)
			s.Call(jen.Id(n))
			m.own = append(m.own, "("+n+")")
		case 4:
			if len(w.stmts) >= c20Pool {
				return w, false
			}
			c := s.Clone()
			w.stmts = append(w.stmts, c)
			w.model = append(w.model, &c20Model{parent: si, snap: w.accept(si)})
		}
		w.lastOp = op
	}
	return w, true
}

func c20Render(s *jen.Statement) string {
	o := jh.Raw(s)
	if !o.OK() {
		return o.String()
	}
	return o.Out
}

func (w *c20World) key() string {
	var sb strings.Builder
	for i, s := range w.stmts {
		fmt.Fprintf(&sb, "%d:%d:%d:%s|", w.model[i].parent, len(*s), cap(*s), c20Render(s))
	}
	return sb.String()
}

// c20Invariant returns "" or a description of the broken statement.
func c20Invariant(w *c20World) string {
	for i, s := range w.stmts {
		got := c20Render(s)
		acc := w.accept(i)
		if !acc[got] {
			var want []string
			for a := range acc {
				want = append(want, fmt.Sprintf("%q", a))
			}
			kind := "original"
			if w.model[i].parent >= 0 {
				kind = fmt.Sprintf("clone of s%d", w.model[i].parent)
			}
			return fmt.Sprintf("s%d (%s, len %d cap %d) renders %q, acceptable: %s", i, kind, len(*s), cap(*s), got, strings.Join(want, " or "))
		}
	}
	if w.lastOp >= 0 && w.lastOp%c20Kinds == 4 {
		c := len(w.stmts) - 1
		if a, b := c20Render(w.stmts[c]), c20Render(w.stmts[w.model[c].parent]); a != b {
			return fmt.Sprintf("fresh clone s%d renders %q, its original s%d renders %q", c, a, w.model[c].parent, b)
		}
	}
	return ""
}

func runC20(r *ev.Recorder) {
	depth := 8
	if r.Tier == ev.Thorough {
		depth = 10
		r.SetDeadline(40 * 60 * 1e9)
	} else {
		r.SetDeadline(5 * 60 * 1e9)
	}
	r.Rule = fmt.Sprintf("explicit-state BFS over the real Statement API: pool of <= %d statements (one original Id(r) plus clones, clones of clones included); operations on any pool member: "+
		"Id (1 token), Dot (2), Add(x,y,z) (3), Call (1 group), Clone; all histories of length <= %d, de-duplicated on (parent, len, cap, raw rendering) of every statement. "+
		"Invariant in every state (list model): an original renders exactly its own tokens; a clone renders its parent (as of clone time or as of now - the property leaves that open) followed by exactly its own tokens in order; "+
		"a fresh clone renders like its original. Slice growth 1->2->4->8 makes cap > len reachable within 3 appends", c20Pool, depth)
	r.Assume = []string{"both snapshot and live-view semantics of Clone are accepted (the property does not choose)", "histories longer than the depth bound are outside the bound"}

	res := statespace.Search(statespace.System{
		NumOps:   c20Pool * c20Kinds,
		MaxDepth: depth,
		Stop:     r.Expired,
		Step: func(hist []int) (string, bool) {
			w, ok := c20Build(hist)
			if !ok {
				return "", false
			}
			return w.key(), true
		},
		Invariant: func(hist []int) {
			w, _ := c20Build(hist)
			r.Eval(1)
			spare := false
			for _, s := range w.stmts {
				if cap(*s) > len(*s) {
					spare = true
				}
			}
			if len(w.stmts) > 1 && spare {
				r.Distinct(w.key())
			}
			if len(hist) == 5 && r.WantSample() {
				r.Sample(map[string]any{"history": c20Hist(hist), "state": w.key()})
			}
			if msg := c20Invariant(w); msg != "" {
				r.Violate(ev.Violation{Signature: "c20:" + c20KindNames[hist[len(hist)-1]%c20Kinds], What: fmt.Sprintf("after %v: %s", c20Hist(hist), msg),
					Case: ev.JSON(hist), Detail: msg})
			}
		},
	})
	r.Note("states", res.States)
	r.Note("transitions", res.Transitions)
	r.Note("traces_validated_against_impl", res.Transitions)
	r.Note("depth_completed", res.Depth)
	r.Note("states_per_depth", res.PerDepth)
	r.Note("non_trivial_rule", "distinct_nontrivial counts states with at least one clone and at least one statement with spare capacity (cap > len)")
	if !res.Complete {
		r.NotExhaustive("search stopped before the depth bound")
	}
}

func replayC20(raw json.RawMessage) (bool, string) {
	var hist []int
	if err := json.Unmarshal(raw, &hist); err != nil {
		return true, "bad case"
	}
	w, ok := c20Build(hist)
	if !ok {
		return true, "history not enabled on this tree"
	}
	msg := c20Invariant(w)
	return msg == "", fmt.Sprintf("history %v: %s", c20Hist(hist), msg)
}
