package checks

import (
	"bytes"
	"encoding/json"
	"errors"
	"fmt"
	"go/token"
	"reflect"
	"regexp"
	"sort"
	"strings"
	"sync"

	"github.com/dave/jennifer/jen"

	"verif/internal/ev"
	"verif/internal/imp"
	"verif/internal/jh"
	"verif/internal/statespace"
)

// C08: rendering is repeatable and import names are stable across renders. E2 search over one
// real File plus two free-standing fragments, with rendering itself in the alphabet.

func init() {
	register(&Check{ID: "C08", Level: "model_checking", Run: runC08, Replay: replayC08})
}

type c08World struct {
	*imp.World
	sharedBlock jen.Code       // one Block group used as a case body and as a function body
	placeholder *jen.Statement // an empty statement inside a List inside a call, filled later
	phFilled    bool
	frags       []*jen.Statement
	fragPath    []string
	observed    map[string]string // path -> qualifier ("" = bare) seen in any earlier output
	obsWhere    map[string]string
	problems    []string // violations noticed while replaying render operations
	nRenders    int
	nfn         int
	anonPaths   map[string]bool
	treeChanged bool
	head        *jen.Statement // the File's first declaration: var _ = Zid(1)
}

var c08Names = map[string]string{"a/f": "f", "b/f": "f", "c/f": "f", "z/anon": "anon", "s/lash/": "lash"}

func newC08World() *c08World {
	w := &c08World{World: imp.New("NewFile", "", imp.DefaultTrueName(c08Names)), observed: map[string]string{}, obsWhere: map[string]string{}, anonPaths: map[string]bool{}}
	w.head = jen.Var().Id("_").Op("=").Id("Zid").Call(jen.Lit(1))
	w.F.Add(w.head)
	for i, p := range []string{"b/f", "c/f", "C", "s/lash/"} {
		sym := fmt.Sprintf("R%d", 9000+i)
		w.frags = append(w.frags, jen.Qual(p, sym).Call())
		w.fragPath = append(w.fragPath, p)
		// the fabricated importer must know the symbol
		w.Refs = append(w.Refs, imp.Ref{Path: p, Sym: sym, Wrapper: "fragment", Rendered: false})
	}
	return w
}

var c08FragRe = regexp.MustCompile(`^(?:(\w+)\.)?(R\d+)\(\)$`)

// observe records / checks the qualifier under which a path appears in an output.
func (w *c08World) observe(path, qual, where string) {
	if old, ok := w.observed[path]; ok {
		if old != qual {
			w.problems = append(w.problems, fmt.Sprintf("path %q appeared as %q in %s and appears as %q in %s", path, showQual(old), w.obsWhere[path], showQual(qual), where))
		}
		return
	}
	w.observed[path] = qual
	w.obsWhere[path] = where
}

func showQual(q string) string {
	if q == "" {
		return "(bare)"
	}
	return q
}

// fileRender renders the File, checks the output against everything observed before and records
// what it shows. It returns the outcome key for repeatability comparison.
func (w *c08World) fileRender(where string) string {
	return w.fileOutput(where, w.Render())
}

// fileGoString is fileRender through File.GoString (what %#v prints).
func (w *c08World) fileGoString(where string) string {
	return w.fileOutput(where, jh.Catch(func() (string, error) { return w.F.GoString(), nil }))
}

func (w *c08World) fileOutput(where string, o jh.Outcome) string {
	w.nRenders++
	if !o.OK() {
		w.problems = append(w.problems, where+": render failed: "+shortErr(o.String()))
		return o.Key()
	}
	a, err := imp.Analyze(o.Out, w.World)
	if err != nil {
		w.problems = append(w.problems, fmt.Sprintf("%s: output does not parse: %v", where, err))
		return o.Key()
	}
	for _, e := range a.TypeErrs {
		if !strings.Contains(e, "and not used") {
			w.problems = append(w.problems, where+": type error: "+e)
		}
	}
	symPath := map[string]string{}
	for _, r := range w.Refs {
		symPath[r.Sym] = r.Path
	}
	used := map[string]bool{}
	for _, u := range a.Uses {
		w.observe(symPath[u.Sym], u.Qual, where)
		used[u.Sym] = true
	}
	for _, r := range w.Refs {
		if r.Rendered && !used[r.Sym] {
			w.problems = append(w.problems, fmt.Sprintf("%s: the reference %s to %q (%s) is missing from the output", where, r.Sym, r.Path, r.Wrapper))
		}
	}
	// every path observed so far must be declared by the import block under that name
	specs := map[string]imp.Spec{}
	for _, s := range a.Specs {
		specs[s.Path] = s
	}
	var paths []string
	for p := range w.observed {
		paths = append(paths, p)
	}
	sort.Strings(paths)
	for _, p := range paths {
		q := w.observed[p]
		s, ok := specs[p]
		switch {
		case !ok:
			w.problems = append(w.problems, fmt.Sprintf("%s: path %q was rendered as %q in %s but the import block does not declare it", where, p, showQual(q), w.obsWhere[p]))
		case q == "" && s.Name != ".":
			w.problems = append(w.problems, fmt.Sprintf("%s: path %q was rendered bare in %s but is imported as %q", where, p, w.obsWhere[p], s.Name))
		case q != "" && s.Name != q && !(s.Name == "" && (w.TrueName(p) == q || p == "C")):
			w.problems = append(w.problems, fmt.Sprintf("%s: path %q was rendered as %q in %s but is imported as %q", where, p, q, w.obsWhere[p], s.Name))
		}
	}
	return o.Key()
}

func (w *c08World) fragRender(i int, where string) string {
	o := jh.Catch(func() (string, error) {
		var b bytes.Buffer
		err := w.frags[i].RenderWithFile(&b, w.F)
		return b.String(), err
	})
	w.nRenders++
	if !o.OK() {
		w.problems = append(w.problems, where+": fragment render failed: "+shortErr(o.String()))
		return o.Key()
	}
	m := c08FragRe.FindStringSubmatch(strings.TrimSpace(o.Out))
	if m == nil {
		w.problems = append(w.problems, fmt.Sprintf("%s: fragment rendered %q", where, o.Out))
		return o.Key()
	}
	w.observe(w.fragPath[i], m[1], where)
	return o.Key()
}

// halfWriter accepts a little more than half of what it is given and then fails.
type halfWriter struct{ buf bytes.Buffer }

func (w *halfWriter) Write(p []byte) (int, error) {
	n := len(p)/2 + 1
	if n > len(p) {
		n = len(p)
	}
	w.buf.Write(p[:n])
	return n, errors.New("injected: device full")
}

// acceptThenFailWriter keeps everything it is given and reports a failure each time.
type acceptThenFailWriter struct {
	buf   bytes.Buffer
	calls int
}

func (w *acceptThenFailWriter) Write(p []byte) (int, error) {
	w.calls++
	w.buf.Write(p)
	return len(p), errors.New("injected: flush failed")
}

// fragRenderFailingWriter renders fragment i with the File into a writer that fails after having
// accepted part of the text: the render must report the error, and a qualifier that the accepted
// bytes show has appeared in output produced with the File.
func (w *c08World) fragRenderFailingWriter(i int, where string) {
	hw := &halfWriter{}
	o := jh.Catch(func() (string, error) { return "", w.frags[i].RenderWithFile(hw, w.F) })
	w.nRenders++
	if o.Panic != nil {
		w.problems = append(w.problems, fmt.Sprintf("%s: panic: %v", where, o.Panic))
		return
	}
	if o.Err == nil {
		w.problems = append(w.problems, where+": the writer failed but RenderWithFile returned nil")
	}
	got := hw.buf.String()
	if k := strings.Index(got, "."); k > 0 && token.IsIdentifier(got[:k]) {
		w.observe(w.fragPath[i], got[:k], where)
	}
}

type c08Op struct {
	name string
	do   func(w *c08World) bool
}

var c08Ops = func() []c08Op {
	var ops []c08Op
	add := func(name string, do func(w *c08World) bool) { ops = append(ops, c08Op{name, do}) }
	for _, p := range []string{"a/f", "b/f", "fmt"} {
		p := p
		add("AddRef("+p+")", func(w *c08World) bool { w.Ref(p, 0); return true })
	}
	caseFn := func(w *c08World, block *jen.Statement, what string) bool {
		w.nfn++
		w.F.Func().Id(fmt.Sprintf("Zcase%d", w.nfn)).Params().Block(jen.Switch(jen.Lit(0)).Block(block, jen.Default().Block()))
		w.Log = append(w.Log, what)
		return true
	}
	add("AddCaseEmptyBlock", func(w *c08World) bool { return caseFn(w, jen.Case(jen.Lit(1)).Block(), "Case(1).Block()") })
	add("AddCaseNilBlock", func(w *c08World) bool { return caseFn(w, jen.Case(jen.Lit(1)).Block(nil), "Case(1).Block(nil)") })
	add("AddCaseBlockRef(a/f)", func(w *c08World) bool {
		w.nfn++
		q := w.NewRef("a/f", imp.WrapperIndex("plain"))
		_ = q
		n := len(w.Refs) - 1
		w.F.Func().Id(fmt.Sprintf("Zcase%d", w.nfn)).Params().Block(jen.Switch(jen.Lit(0)).Block(
			jen.Case(jen.Lit(1)).Block(jen.Id("_").Op("=").Qual("a/f", fmt.Sprintf("R%d", n))), jen.Default().Block(jen.Id("_").Op("=").Lit(2))))
		w.Log = append(w.Log, "Case(1).Block(_ = a/f.R)")
		return true
	})
	add("AddDict(a/f,b/f)", func(w *c08World) bool {
		n := len(w.Refs)
		w.Refs = append(w.Refs, imp.Ref{Path: "a/f", Sym: fmt.Sprintf("R%d", n), Wrapper: "dict", Rendered: true}, imp.Ref{Path: "b/f", Sym: fmt.Sprintf("R%d", n+1), Wrapper: "dict", Rendered: true})
		w.F.Var().Id("_").Op("=").Map(jen.Int()).Int().Values(jen.Dict{jen.Qual("a/f", fmt.Sprintf("R%d", n)): jen.Lit(1), jen.Qual("b/f", fmt.Sprintf("R%d", n+1)): jen.Lit(2)})
		w.Log = append(w.Log, "AddDict(a/f,b/f)")
		return true
	})
	add("File.Render", func(w *c08World) bool {
		w.Log = append(w.Log, "File.Render")
		w.fileRender(fmt.Sprintf("File.Render #%d", w.nRenders+1))
		return true
	})
	// the writer accepts everything and then reports a failure (a flush that fails): Render must
	// report it, and what the writer accepted is output produced with the File
	add("File.Render(writer failing after accepting)", func(w *c08World) bool {
		w.Log = append(w.Log, "File.Render(writer that accepts the text and then fails)")
		where := fmt.Sprintf("File.Render #%d into a writer that fails after accepting", w.nRenders+1)
		aw := &acceptThenFailWriter{}
		o := jh.Catch(func() (string, error) { return "", w.F.Render(aw) })
		if o.Panic != nil {
			w.nRenders++
			w.problems = append(w.problems, fmt.Sprintf("%s: panic: %v", where, o.Panic))
			return true
		}
		if aw.calls == 0 {
			w.nRenders++ // the render failed before writing (reported by the File.Render operation)
			return true
		}
		if o.Err == nil {
			w.problems = append(w.problems, where+": the writer failed but Render returned nil")
		}
		w.fileOutput(where, jh.Outcome{Out: aw.buf.String()})
		return true
	})
	// one Block used in two statements of the File: as the body of a case clause and of a function
	shared := func(w *c08World) jen.Code {
		if w.sharedBlock == nil {
			w.sharedBlock = (*jen.Block(jen.Id("_").Op("=").Lit(7)))[0] // the group itself
		}
		return w.sharedBlock
	}
	add("AddCaseWithSharedBlock", func(w *c08World) bool {
		w.nfn++
		w.F.Func().Id(fmt.Sprintf("Zshc%d", w.nfn)).Params().Block(jen.Switch(jen.Lit(0)).Block(jen.Case(jen.Lit(1)).Add(shared(w))))
		w.Log = append(w.Log, "func(){switch 0 {case 1: <shared block>}}")
		return true
	})
	add("AddFuncWithSharedBlock", func(w *c08World) bool {
		w.nfn++
		w.F.Func().Id(fmt.Sprintf("Zshf%d", w.nfn)).Params().Add(shared(w))
		w.Log = append(w.Log, "func() <shared block>")
		return true
	})
	add("File.GoString", func(w *c08World) bool {
		w.Log = append(w.Log, "File.GoString")
		w.fileGoString(fmt.Sprintf("File.GoString #%d", w.nRenders+1))
		return true
	})
	// a list whose only item is a still empty statement the caller keeps, filled in later
	add("AddListOfPlaceholder", func(w *c08World) bool {
		if w.placeholder != nil {
			return false
		}
		w.placeholder = &jen.Statement{}
		w.F.Var().Id("_").Op("=").Id("Zid").Call(jen.List(w.placeholder))
		w.Log = append(w.Log, "var _ = Zid(List(placeholder))")
		return true
	})
	add("FillPlaceholder(b/f)", func(w *c08World) bool {
		if w.placeholder == nil || w.phFilled {
			return false
		}
		w.phFilled = true
		n := len(w.Refs)
		w.Refs = append(w.Refs, imp.Ref{Path: "b/f", Sym: fmt.Sprintf("R%d", n), Wrapper: "placeholder", Rendered: true})
		w.placeholder.Qual("b/f", fmt.Sprintf("R%d", n))
		w.Log = append(w.Log, "placeholder.Qual(b/f)")
		return true
	})
	for i := 0; i < 4; i++ {
		i := i
		add(fmt.Sprintf("Fragment%d.RenderWithFile", i), func(w *c08World) bool {
			w.Log = append(w.Log, fmt.Sprintf("Qual(%s).RenderWithFile(file)", w.fragPath[i]))
			w.fragRender(i, fmt.Sprintf("fragment %d render #%d", i, w.nRenders+1))
			return true
		})
	}
	add("Fragment0.RenderWithFile(failing writer)", func(w *c08World) bool {
		w.Log = append(w.Log, fmt.Sprintf("Qual(%s).RenderWithFile(writer failing half-way, file)", w.fragPath[0]))
		w.fragRenderFailingWriter(0, fmt.Sprintf("fragment 0 render #%d into a failing writer", w.nRenders+1))
		return true
	})
	add("ImportName(a/f)", func(w *c08World) bool { w.Name("a/f"); return true })
	add("ImportAlias(a/f,g)", func(w *c08World) bool { w.Alias("a/f", "g"); return true })
	add("ImportAlias(a/f,.)", func(w *c08World) bool { w.Alias("a/f", "."); return true })
	add("ImportAlias(b/f,f)", func(w *c08World) bool { w.Alias("b/f", "f"); return true })
	add("ImportAlias(a/f,_)", func(w *c08World) bool { w.Alias("a/f", "_"); return true })
	add("ImportAlias(c/f,.)", func(w *c08World) bool { w.Alias("c/f", "."); return true })
	add("ImportAlias(fmt,.)", func(w *c08World) bool { w.Alias("fmt", "."); return true })
	add("Anon(z/anon)", func(w *c08World) bool { w.AnonImport("z/anon"); return true })
	// Anon BEFORE the path is referenced is inside the property (only Anon on an already
	// referenced path is excluded)
	add("Anon(a/f)-if-unreferenced", func(w *c08World) bool {
		for _, r := range w.Refs {
			if r.Path == "a/f" {
				return false
			}
		}
		w.AnonImport("a/f")
		return true
	})
	add("Anon(b/f)-if-unobserved", func(w *c08World) bool {
		if _, seen := w.observed["b/f"]; seen {
			return false
		}
		for _, r := range w.Refs {
			if r.Path == "b/f" && r.Wrapper != "fragment" {
				return false
			}
		}
		w.AnonImport("b/f")
		return true
	})
	add("ImportAlias(s/lash/,.)", func(w *c08World) bool { w.Alias("s/lash/", "."); return true })
	add("Anon(C)-if-unreferenced", func(w *c08World) bool {
		if _, seen := w.observed["C"]; seen {
			return false
		}
		w.AnonImport("C")
		return true
	})
	// a reference added to the File's FIRST declaration (a statement the caller kept a pointer to),
	// i.e. in front of everything rendered before
	for _, p := range []string{"a/f", "b/f"} {
		p := p
		add("ExtendFirstDecl("+p+")", func(w *c08World) bool {
			n := len(w.Refs)
			w.Refs = append(w.Refs, imp.Ref{Path: p, Sym: fmt.Sprintf("R%d", n), Wrapper: "head", Rendered: true})
			w.head.Op("+").Qual(p, fmt.Sprintf("R%d", n))
			w.Log = append(w.Log, "first declaration += "+p)
			return true
		})
	}
	add("PackagePrefix=pkg", func(w *c08World) bool {
		if w.F.PackagePrefix != "" {
			return false
		}
		w.Prefix("pkg")
		return true
	})
	add("NoFormat=true", func(w *c08World) bool {
		if w.F.NoFormat {
			return false
		}
		w.F.NoFormat = true
		w.Log = append(w.Log, "NoFormat=true")
		return true
	})
	return ops
}()

func c08Build(hist []int) (*c08World, bool) {
	w := newC08World()
	for _, op := range hist {
		if !c08Ops[op].do(w) {
			return w, false
		}
	}
	return w, true
}

func (w *c08World) key() string {
	var sb strings.Builder
	sb.WriteString(imp.Key(w.F))
	// the free-standing fragments and the retained placeholder are part of the state too
	for _, fr := range w.frags {
		sb.WriteString(imp.Key(fr))
	}
	if w.placeholder != nil {
		sb.WriteString(imp.Key(w.placeholder))
	}
	var ps []string
	for p, q := range w.observed {
		ps = append(ps, p+"="+q)
	}
	sort.Strings(ps)
	sb.WriteString(strings.Join(ps, ","))
	fmt.Fprintf(&sb, "|problems=%d|ph=%v", len(w.problems), w.phFilled)
	return sb.String()
}

// c08Invariant: in the state reached, render everything twice; outputs identical, tree
// unchanged, names consistent with everything observed during the history.
func c08Invariant(w *c08World) []string {
	before := imp.Key(w.F.Group)
	k1 := w.fileRender("invariant File.Render 1")
	mid := imp.Key(w.F.Group)
	k2 := w.fileRender("invariant File.Render 2")
	after := imp.Key(w.F.Group)
	if k1 != k2 {
		w.problems = append(w.problems, fmt.Sprintf("two consecutive File.Render calls differ:\n--- first\n%s\n--- second\n%s", jh.Short(k1, 1500), jh.Short(k2, 1500)))
	}
	// a change of the tree that does not change any output is not a violation (an implementation
	// may cache); it is only counted
	w.treeChanged = before != mid || mid != after
	for i := range w.frags {
		f1 := w.fragRender(i, fmt.Sprintf("invariant fragment %d render 1", i))
		f2 := w.fragRender(i, fmt.Sprintf("invariant fragment %d render 2", i))
		if f1 != f2 {
			w.problems = append(w.problems, fmt.Sprintf("two consecutive renders of fragment %d differ: %q vs %q", i, f1, f2))
		}
	}
	k3 := w.fileRender("invariant File.Render 3 (after the fragments)")
	_ = k3
	return w.problems
}

// c08Constructs: for every exported builder and every argument combination of C14's tiny domains, a
// statement is put into a File and rendered (twice), its arguments are then changed in place
// (lateMutate), and it is rendered again: the result must equal that of an identically built and
// changed File that was never rendered before - whatever a render remembers (a memo of null-ness,
// of a tag's text, of an import block) must not outlive a change of what it was computed from.
func c08Constructs(r *ev.Recorder) {
	cs, _ := c14Constructs()
	var n int64
	for _, c := range cs {
		for _, combo := range combos(c.domains) {
			for variant := 0; variant < 4; variant++ {
				noFormat, mode := variant&1 == 0, variant>>1
				build := func() (*jen.File, *jen.Statement, []reflect.Value, bool) {
					args := c.args(combo, new(int))
					st := jen.Var().Id("_").Op("=")
					_, p := call(reflect.ValueOf(st).MethodByName(c.name), args, c.isVar)
					f := jen.NewFile("p")
					f.NoFormat = noFormat
					f.Add(st)
					f.Var().Id("_").Op("=").Qual("x/y", "Other")
					return f, st, args, p == nil
				}
				fa, sta, argsA, ok := build()
				if !ok {
					continue
				}
				a1 := jh.RenderFile(fa)
				a2 := jh.RenderFile(fa)
				frag1 := jh.Catch(func() (string, error) { var b bytes.Buffer; err := sta.RenderWithFile(&b, fa); return b.String(), err })
				changed := lateMutate(argsA, mode)
				a3 := jh.RenderFile(fa)
				frag3 := jh.Catch(func() (string, error) { var b bytes.Buffer; err := sta.RenderWithFile(&b, fa); return b.String(), err })
				fb, stb, argsB, _ := build()
				lateMutate(argsB, mode)
				b3 := jh.RenderFile(fb)
				fragB := jh.Catch(func() (string, error) { var b bytes.Buffer; err := stb.RenderWithFile(&b, fb); return b.String(), err })
				r.Eval(4)
				n++
				desc := fmt.Sprintf("%s in a File (NoFormat=%v, arguments %s)", c.describe(combo), noFormat, []string{"extended", "changed in place without changing any size"}[mode])
				if changed {
					r.Distinct("construct:" + desc)
				}
				msg := ""
				switch {
				case a1.Key() != a2.Key():
					msg = fmt.Sprintf("two consecutive renders differ: %q vs %q", a1, a2)
				case a3.Key() != b3.Key():
					msg = fmt.Sprintf("rendered, arguments changed, rendered again: %q; a File built and changed alike but never rendered before: %q", a3, b3)
				case frag3.Key() != fragB.Key():
					msg = fmt.Sprintf("the statement rendered with its File after render + change: %q; with a File that was never used before the change: %q", frag3, fragB)
				case !changed && frag1.Key() != frag3.Key():
					msg = fmt.Sprintf("two fragment renders with the File differ: %q vs %q", frag1, frag3)
				}
				if msg != "" {
					r.Violate(ev.Violation{Signature: "c08:construct:" + c.name + ":" + problemKind(msg), What: desc + ": " + jh.Short(msg, 300), Case: ev.JSON([]int{-1}), Detail: msg})
				}
			}
		}
	}
	r.Note("construct_rerender_cases", n)
}

// ---- file-level histories with a twin oracle

type c08FileOp struct {
	name   string
	render bool
	do     func(f *jen.File, n int)
}

// Operations that never make two paths compete for a name, so that the names a render hands out
// do not depend on when it happens: the File must then render exactly like a twin built by the
// same operations that was never rendered before.
var c08FileOps = []c08FileOp{
	{"HeaderComment(one line)", false, func(f *jen.File, n int) { f.HeaderComment(fmt.Sprintf("header %d", n)) }},
	{"HeaderComment(two lines)", false, func(f *jen.File, n int) { f.HeaderComment(fmt.Sprintf("header %d\nsecond line", n)) }},
	{"PackageComment", false, func(f *jen.File, n int) { f.PackageComment(fmt.Sprintf("Package p, comment %d.", n)) }},
	{"CanonicalPath=x.y/p", false, func(f *jen.File, n int) { f.CanonicalPath = "x.y/p" }},
	{"CanonicalPath=", false, func(f *jen.File, n int) { f.CanonicalPath = "" }},
	{"NoFormat=!NoFormat", false, func(f *jen.File, n int) { f.NoFormat = !f.NoFormat }},
	{"CgoPreamble", false, func(f *jen.File, n int) { f.CgoPreamble(fmt.Sprintf("#include <h%d.h>", n)) }},
	{"Anon(z/anon)", false, func(f *jen.File, n int) { f.Anon("z/anon") }},
	{"Anon(C)", false, func(f *jen.File, n int) { f.Anon("C") }},
	{"Add(var = literal)", false, func(f *jen.File, n int) { f.Var().Id(fmt.Sprintf("v%d", n)).Op("=").Lit(n) }},
	{"Add(var = a/alpha.X)", false, func(f *jen.File, n int) { f.Var().Id(fmt.Sprintf("v%d", n)).Op("=").Qual("a/alpha", "X") }},
	{"Add(var = b/beta.Y)", false, func(f *jen.File, n int) { f.Var().Id(fmt.Sprintf("v%d", n)).Op("=").Qual("b/beta", "Y") }},
	{"Add(var = C.z)", false, func(f *jen.File, n int) { f.Var().Id(fmt.Sprintf("v%d", n)).Op("=").Qual("C", "z") }},
	{"Add(comment)", false, func(f *jen.File, n int) { f.Comment(fmt.Sprintf("comment %d", n)) }},
	{"File.Render", true, nil},
	{"File.GoString", true, nil},
}

func c08FileBuild(hist []int, withRenders bool) *jen.File {
	f := jen.NewFile("p")
	for n, op := range hist {
		o := c08FileOps[op]
		switch {
		case !o.render:
			o.do(f, n)
		case withRenders && o.name == "File.GoString":
			jh.Catch(func() (string, error) { return f.GoString(), nil })
		case withRenders:
			jh.RenderFile(f)
		}
	}
	return f
}

func c08FileLevel(r *ev.Recorder, depth int) {
	var names []string
	for _, o := range c08FileOps {
		names = append(names, o.name)
	}
	res := statespace.Search(statespace.System{
		Tick:   r.Tick,
		NumOps: len(c08FileOps), MaxDepth: depth, Stop: r.Expired,
		Step: func(hist []int) (string, bool) {
			return imp.Key(c08FileBuild(hist, true)), true
		},
		Invariant: func(hist []int) {
			rendered := false
			for _, op := range hist {
				rendered = rendered || c08FileOps[op].render
			}
			if !rendered {
				return // this state is its own twin
			}
			got := jh.RenderFile(c08FileBuild(hist, true))
			want := jh.RenderFile(c08FileBuild(hist, false))
			r.Eval(1)
			var log []string
			for _, op := range hist {
				log = append(log, c08FileOps[op].name)
			}
			if hist[len(hist)-1] < len(c08FileOps)-2 {
				r.Distinct("file-level:" + strings.Join(log, ","))
			}
			if got.Key() != want.Key() {
				r.Violate(ev.Violation{Signature: "c08:file-level:" + c08FileOps[hist[len(hist)-1]].name, What: fmt.Sprintf("after %v the File renders differently from a File built by the same operations that was never rendered before", log),
					Case: ev.JSON([]int{-1}), Detail: fmt.Sprintf("--- with the earlier renders\n%s\n--- twin never rendered before\n%s", got, want)})
			}
		},
	})
	r.Note("file_level_search", map[string]any{"operations": names, "depth": res.Depth, "states": res.States, "transitions": res.Transitions, "states_per_depth": res.PerDepth, "complete": res.Complete})
	if !res.Complete {
		r.NotExhaustive("file-level search stopped before its depth bound")
	}
}

func runC08(r *ev.Recorder) {
	depth := 5
	if r.Tier == ev.Thorough {
		depth = 6
		r.SetDeadline(50 * 60 * 1e9)
	} else {
		r.SetDeadline(6 * 60 * 1e9)
	}
	var names []string
	for _, o := range c08Ops {
		names = append(names, o.name)
	}
	r.Rule = fmt.Sprintf("explicit-state BFS over one real File plus two free-standing fragments (Qual(b/f), Qual(c/f)) with rendering in the alphabet; operations: %s; all histories of length <= %d, "+
		"de-duplicated on (reflection dump of the File incl. import table, hints and body; qualifiers observed so far). Invariant in every distinct state, on a replayed copy: File.Render twice gives identical bytes / identical error-ness; "+
		"each fragment rendered twice with the File gives identical bytes; every (path -> qualifier) observed in ANY earlier output of the history (File renders and fragment renders, including the render operations of the history itself) is used by every later output, "+
		"and every later File.Render declares the path under exactly that name; no type error other than unused imports. Plus, for every exported builder x every argument combination of C14's domains: in a File, rendered twice, every *Statement argument extended and every tag map enlarged in place (or: map values replaced, sizes unchanged), rendered again (File.Render and RenderWithFile) - equal to an identically built and changed File never rendered before. Plus a second BFS over file-level operations that never make paths compete for a name (header / package comments, CanonicalPath, NoFormat, cgo preamble, Anon, declarations with and without qualified identifiers to three paths incl. C, comments, File.Render, File.GoString) one level less deep: in every state the File renders exactly like a twin built by the same operations without the intermediate renders. distinct_nontrivial = states whose history contains a render followed by a later mutation", strings.Join(names, ", "), depth)
	r.Assume = []string{"Anon is only applied to a path that is never referenced (the property excludes Anon on a referenced path)",
		"imports that a File declares only because a fragment was rendered with it are allowed to be unused (the property demands the declaration)",
		"histories longer than the depth bound are outside the bound"}
	var mu sync.Mutex
	res := statespace.Search(statespace.System{
		Tick:   r.Tick,
		NumOps: len(c08Ops), MaxDepth: depth, Stop: r.Expired,
		Step: func(hist []int) (string, bool) {
			w, ok := c08Build(hist)
			if !ok {
				return "", false
			}
			return w.key(), true
		},
		Invariant: func(hist []int) {
			w, _ := c08Build(hist)
			r.Eval(1)
			nontrivial := false
			seenRender := false
			for _, op := range hist {
				n := c08Ops[op].name
				if strings.Contains(n, "Render") {
					seenRender = true
				} else if seenRender {
					nontrivial = true
				}
			}
			if nontrivial {
				r.Distinct(w.key())
			}
			log := append([]string(nil), w.Log[1:]...)
			probs := c08Invariant(w)
			if w.treeChanged {
				r.Count("states_where_rendering_changed_the_tree_dump", 1)
			}
			if nontrivial && len(hist) == depth && r.WantSample() {
				mu.Lock()
				r.Sample(map[string]any{"history": log, "final_output": w.Render().Out})
				mu.Unlock()
			}
			if len(probs) > 0 {
				r.Violate(ev.Violation{Signature: "c08:" + problemKind(strings.TrimLeft(probs[0], "0123456789")), What: fmt.Sprintf("after %v: %s", log, probs[0]),
					Case: ev.JSON(hist), Detail: strings.Join(probs, "\n")})
			}
		},
	})
	c08Constructs(r)
	c08FileLevel(r, depth-1)
	r.Note("states", res.States)
	r.Note("transitions", res.Transitions)
	r.Note("traces_validated_against_impl", res.Transitions)
	r.Note("depth_completed", res.Depth)
	r.Note("states_per_depth", res.PerDepth)
	r.Note("operations", len(c08Ops))
	if !res.Complete {
		r.NotExhaustive("search stopped before the depth bound")
	}
}

func replayC08(raw json.RawMessage) (bool, string) {
	var hist []int
	if err := json.Unmarshal(raw, &hist); err != nil {
		return true, "bad case"
	}
	if len(hist) == 1 && hist[0] == -1 {
		return true, "the construct re-render cases are replayed by running the check"
	}
	w, ok := c08Build(hist)
	if !ok {
		return true, "history not enabled"
	}
	log := append([]string(nil), w.Log[1:]...)
	probs := c08Invariant(w)
	return len(probs) == 0, fmt.Sprintf("history %v:\n%s", log, strings.Join(probs, "\n"))
}
