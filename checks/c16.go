package checks

import (
	"encoding/json"
	"fmt"
	"go/ast"
	"os"
	"sort"
	"strconv"
	"strings"
	"sync"
	"time"

	"github.com/dave/jennifer/jen"

	"verif/internal/env"
	"verif/internal/ev"
	"verif/internal/explore"
	"verif/internal/jh"
)

// C16: Dict renders every non-null pair exactly once, in key order - under every map iteration
// order (instrumented build).

func init() {
	register(&Check{ID: "C16", Level: "model_checking", Variant: "instr", Run: runC16, Replay: replayC16})
}

type c16Kind struct {
	name string
	make func() jen.Code
	text string // expected text with whitespace removed; "@path" = qualifier of path + ".X"/".Y"
	null bool
}

var c16Keys = []c16Kind{
	{"Lit(a)", func() jen.Code { return jen.Lit("a") }, `"a"`, false},
	{"Id(a)", func() jen.Code { return jen.Id("a") }, "a", false},
	{"f()", func() jen.Code { return jen.Id("f").Call() }, "f()", false},
	{"Qual(a/f,X)", func() jen.Code { return jen.Qual("a/f", "X") }, "@<a/f>.X", false},
	{"Qual(b/f,X)", func() jen.Code { return jen.Qual("b/f", "X") }, "@<b/f>.X", false},
	{"Null()", func() jen.Code { return jen.Null() }, "", true},
	{"Lit(ab)", func() jen.Code { return jen.Lit("ab") }, `"ab"`, false},
	{"a.b", func() jen.Code { return jen.Id("a").Dot("b") }, "a.b", false},
	{"Id(ab)", func() jen.Code { return jen.Id("ab") }, "ab", false},
	{"K{A:Qual(a/f),B:Qual(b/f)}", func() jen.Code {
		return jen.Id("K").Values(jen.Dict{c16K(jen.Id("A")): jen.Qual("a/f", "P"), c16K(jen.Id("B")): jen.Qual("b/f", "Q")})
	}, "K{A:@<a/f>.P,B:@<b/f>.Q}", false},
	{"K{A:f0,B:Qual(b/f)}", func() jen.Code {
		return jen.Id("K").Values(jen.Dict{c16K(jen.Id("A")): jen.Id("f0"), c16K(jen.Id("B")): jen.Qual("b/f", "R")})
	}, "K{A:f0,B:@<b/f>.R}", false},
	{"Id(z)", func() jen.Code { return jen.Id("z") }, "z", false},
	// keys computed by a callback from a cursor that moves on straight after the constructing call
	{"LitFunc(cursor=k1)", func() jen.Code { return c16Cursor("k1") }, `"k1"`, false},
	{"LitFunc(cursor=k2)", func() jen.Code { return c16Cursor("k2") }, `"k2"`, false},
	// integer keys next to an expression key: the order is that of the texts ("10" < "2*n" < "9")
	{"Lit(9)", func() jen.Code { return jen.Lit(9) }, "9", false},
	{"Lit(10)", func() jen.Code { return jen.Lit(10) }, "10", false},
	{"2*n", func() jen.Code { return jen.Lit(2).Op("*").Id("n") }, "2*n", false},
	// keys that are clones of ONE base statement (which has spare capacity), each extended
	{"base.Clone()[0]", func() jen.Code { return c16Base().Clone().Index(jen.Lit(0)) }, "cfg.Limits.Max[0]", false},
	{"base.Clone()[1]", func() jen.Code { return c16Base().Clone().Index(jen.Lit(1)) }, "cfg.Limits.Max[1]", false},
}

// c16Base is the statement the clone keys of the Dict being built are cloned from (one per Dict).
var c16BaseStmt *jen.Statement

func c16Base() *jen.Statement {
	if c16BaseStmt == nil {
		c16BaseStmt = jen.Id("cfg").Dot("Limits").Dot("Max")
	}
	return c16BaseStmt
}

var c16CursorValue string

func c16Cursor(v string) jen.Code {
	c16CursorValue = v
	st := jen.LitFunc(func() interface{} { return c16CursorValue })
	c16CursorValue = "cursor moved on"
	return st
}

var c16Vals = []c16Kind{
	{"Lit(1)", func() jen.Code { return jen.Lit(1) }, "1", false},
	{"Null()", func() jen.Code { return jen.Null() }, "", true},
	{"Qual(c/f,Y)", func() jen.Code { return jen.Qual("c/f", "Y") }, "@<c/f>.Y", false},
	{"Id(v)", func() jen.Code { return jen.Id("v") }, "v", false},
	{"{1:2}", func() jen.Code { return jen.Values(jen.Dict{jen.Lit(1): jen.Lit(2)}) }, "{1:2}", false},
	{"Dict{}", func() jen.Code { return jen.Values(jen.Dict{jen.Null(): jen.Lit(2)}) }, "{}", false},
	{"Lit(long..a)", func() jen.Code { return jen.Lit(c16Long + "a") }, `"` + c16Long + `a"`, false},
	{"Lit(long..b)", func() jen.Code { return jen.Lit(c16Long + "b") }, `"` + c16Long + `b"`, false},
	// a nested Dict whose own key order depends on the name its qualified key gets (f.A < f0 < f1.A)
	{"{Qual(a/f,A):1,f0:2}", func() jen.Code {
		return jen.Values(jen.Dict{c16K(jen.Qual("a/f", "A")): jen.Lit(1), c16K(jen.Id("f0")): jen.Lit(2)})
	}, "{#sort(@<a/f>.A:1|f0:2)#}", false},
	// text that looks like the start of a comment, inside a literal
	{"Lit(a // b)", func() jen.Code { return jen.Lit("a // b") }, `"a//b"`, false},
	{"Lit(/*)", func() jen.Code { return jen.Lit("/* x") }, `"/*x"`, false},
	// values that refer to the packages of the keys, with the same identifier
	{"Qual(a/f,X)", func() jen.Code { return jen.Qual("a/f", "X") }, "@<a/f>.X", false},
	{"Qual(b/f,X)", func() jen.Code { return jen.Qual("b/f", "X") }, "@<b/f>.X", false},
}

// c16K enrols the key of a nested Dict with the controller of the execution being built
// (executions under environment control are sequential within a process).
var c16CurCtl *env.Controller

func c16K(c jen.Code) jen.Code {
	if c16CurCtl != nil {
		c16CurCtl.Key(c)
	}
	return c
}

var c16Long = strings.Repeat("0123456789", 40)

// a Dict instance: pairs of (key kind, value kind), as a sorted multiset
type c16Dict struct {
	Pairs [][2]int `json:"pairs"`
}

func (d c16Dict) String() string {
	var ps []string
	for _, p := range d.Pairs {
		ps = append(ps, c16Keys[p[0]].name+": "+c16Vals[p[1]].name)
	}
	return "Dict{" + strings.Join(ps, ", ") + "}"
}

// c16All enumerates every multiset of up to maxN pairs over nk key kinds x nv value kinds.
func c16All(maxN, nk, nv int) []c16Dict {
	var out []c16Dict
	kinds := nk * nv
	var rec func(start int, cur [][2]int)
	rec = func(start int, cur [][2]int) {
		out = append(out, c16Dict{Pairs: append([][2]int(nil), cur...)})
		if len(cur) == maxN {
			return
		}
		for k := start; k < kinds; k++ {
			rec(k, append(cur, [2]int{k / nv, k % nv}))
		}
	}
	rec(0, nil)
	return out
}

// c16Render builds the Dict with fresh objects and renders `var x = T{dict}` raw.
func c16Render(d c16Dict, ctl *env.Controller) jh.Outcome { return c16RenderVariant(d, ctl, 0) }

// c16Variants: 0 = the Dict alone in a fresh File; 1 = the qualified paths were made anonymous
// imports before; 2 = another Dict comes first in the same File and the File is rendered twice
// (the second output is judged); 3 = the Dict handed to ValuesFunc through g.Add; 4 = the Dict wrapped
// in a statement, Values(Add(dict)); 5 = two other packages of the same name were referenced before (the
// File has handed out numbered names already).
const c16Variants = 6

func c16RenderVariant(d c16Dict, ctl *env.Controller, variant int) jh.Outcome {
	if ctl != nil {
		c16CurCtl = ctl
		defer func() { c16CurCtl = nil }()
	}
	c16BaseStmt = nil
	dict := jen.Dict{}
	for _, p := range d.Pairs {
		k := c16Keys[p[0]].make()
		if ctl != nil {
			ctl.Key(k)
		}
		dict[k] = c16Vals[p[1]].make()
	}
	f := jen.NewFile("p")
	f.NoFormat = true
	switch variant {
	case 1:
		f.Anon("a/f", "b/f", "c/f")
	case 2:
		k1, k2 := jen.Lit("p"), jen.Lit("q")
		if ctl != nil {
			ctl.Key(k1)
			ctl.Key(k2)
		}
		f.Var().Id("y").Op("=").Id("U").Values(jen.Dict{k1: jen.Lit(0), k2: jen.Id("T0")})
	}
	if variant == 5 {
		f.Var().Id("_").Op("=").List(jen.Qual("p/f", "E"), jen.Qual("q/f", "E"))
	}
	switch variant {
	case 3:
		f.Var().Id("x").Op("=").Id("T").ValuesFunc(func(g *jen.Group) { g.Add(dict) })
	case 4:
		f.Var().Id("x").Op("=").Id("T").Values(jen.Add(dict))
	default:
		f.Var().Id("x").Op("=").Id("T").Values(dict)
	}
	o := jh.RenderFile(f)
	if variant == 2 {
		o = jh.RenderFile(f)
	}
	return o
}

func stripSpace(s string) string {
	return strings.Map(func(r rune) rune {
		if r == ' ' || r == '\n' || r == '\t' {
			return -1
		}
		return r
	}, s)
}

// c16Judge checks one raw output against the Dict; "" = holds.
func c16Judge(d c16Dict, o jh.Outcome) string {
	if !o.OK() {
		return "render failed: " + jh.Short(o.String(), 300)
	}
	af, fset, err := jh.ParseFile(o.Out)
	if err != nil {
		return fmt.Sprintf("output does not parse (%v): %q", err, o.Out)
	}
	names := map[string]string{}
	for _, im := range af.Imports {
		p, _ := strconv.Unquote(im.Path.Value)
		if im.Name == nil {
			return fmt.Sprintf("import %q without alias", p)
		}
		if im.Name.Name == "_" {
			continue // anonymous import that was never referenced
		}
		names[p] = im.Name.Name
	}
	var lit *ast.CompositeLit
	ast.Inspect(af, func(n ast.Node) bool {
		if cl, ok := n.(*ast.CompositeLit); ok && lit == nil {
			if id, ok := cl.Type.(*ast.Ident); ok && id.Name == "T" {
				lit = cl
			}
		}
		return true
	})
	if lit == nil {
		return fmt.Sprintf("no composite literal T{...} in %q", o.Out)
	}
	expand := func(t string) string {
		for {
			i := strings.Index(t, "@<")
			if i < 0 {
				break
			}
			j := strings.Index(t[i:], ">")
			t = t[:i] + names[t[i+2:i+j]] + t[i+j+1:]
		}
		// #sort(a|b|c)#: the alternatives in the order of their (expanded) text, comma separated
		for {
			i := strings.Index(t, "#sort(")
			if i < 0 {
				return t
			}
			j := strings.Index(t[i:], ")#")
			alts := strings.Split(t[i+6:i+j], "|")
			sort.Strings(alts)
			t = t[:i] + strings.Join(alts, ",") + t[i+j+2:]
		}
	}
	var want []string
	for _, p := range d.Pairs {
		k, v := c16Keys[p[0]], c16Vals[p[1]]
		if k.null || v.null {
			continue
		}
		want = append(want, expand(k.text)+" : "+expand(v.text))
	}
	sort.Strings(want)
	src := func(n ast.Node) string { return o.Out[fset.Position(n.Pos()).Offset:fset.Position(n.End()).Offset] }
	var got []string
	var rawKeys []string
	lines := map[int]bool{}
	lastEnd := 0
	for _, e := range lit.Elts {
		kv, ok := e.(*ast.KeyValueExpr)
		if !ok {
			return fmt.Sprintf("element %q is not a key: value pair", src(e))
		}
		got = append(got, strings.ReplaceAll(stripSpace(src(kv.Key)), ",}", "}")+" : "+strings.ReplaceAll(stripSpace(src(kv.Value)), ",}", "}"))
		rawKeys = append(rawKeys, src(kv.Key))
		lines[fset.Position(kv.Pos()).Line] = true
		lastEnd = fset.Position(kv.End()).Line
	}
	sortedGot := append([]string(nil), got...)
	sort.Strings(sortedGot)
	if strings.Join(sortedGot, "\n") != strings.Join(want, "\n") {
		return fmt.Sprintf("rendered pairs %q, want exactly %q", got, want)
	}
	if !sort.StringsAreSorted(rawKeys) {
		return fmt.Sprintf("pairs are not ordered by the rendered text of their keys: %q", rawKeys)
	}
	// layout: one pair sits on the lines of the braces (a key or value may itself span lines);
	// several pairs each start on a line of their own, between the braces' lines
	open, close := fset.Position(lit.Lbrace).Line, fset.Position(lit.Rbrace).Line
	switch {
	case len(got) == 1 && (!lines[open] || close != lastEnd):
		return fmt.Sprintf("a single pair must be rendered inline: %q", o.Out)
	case len(got) > 1 && (len(lines) != len(got) || lines[open] || close <= lastEnd):
		return fmt.Sprintf("several pairs must be rendered one per line: %q", o.Out)
	}
	return ""
}

type c16Result struct {
	Dicts      int64            `json:"dicts"`
	Executions int64            `json:"executions"`
	Deviating  int64            `json:"deviating"`
	RangeExecs int64            `json:"range_executions"`
	Complete   bool             `json:"complete"`
	Violations []ev.Violation   `json:"violations"`
	Samples    []any            `json:"samples"`
	Outcomes   map[string]int64 `json:"outcome_classes"`
}

type c16Case struct {
	Variant int     `json:"file_variant"`
	Dict    c16Dict `json:"dict"`
	Vector  []int   `json:"vector"`
	Desc    string  `json:"description"`
}

// c16Over enumerates every multiset of up to maxN pairs over the given key and value kinds.
func c16Over(maxN int, keys, vals []int) []c16Dict {
	var out []c16Dict
	var kinds [][2]int
	for _, k := range keys {
		for _, v := range vals {
			kinds = append(kinds, [2]int{k, v})
		}
	}
	var rec func(start int, cur [][2]int)
	rec = func(start int, cur [][2]int) {
		out = append(out, c16Dict{Pairs: append([][2]int(nil), cur...)})
		if len(cur) == maxN {
			return
		}
		for k := start; k < len(kinds); k++ {
			rec(k, append(cur, kinds[k]))
		}
	}
	rec(0, nil)
	return out
}

func c16Space(tier ev.Tier) []c16Dict {
	var ds []c16Dict
	if tier == ev.Thorough {
		ds = c16All(4, 9, 6)
		ds = append(ds, c16All(5, 6, 3)...)
		ds = append(ds, c16All(3, 11, 8)...) // the kinds added later take part through c16Over below
	} else {
		ds = c16All(3, 9, 6)
		ds = append(ds, c16All(4, 7, 4)...)
		ds = append(ds, c16All(2, len(c16Keys), len(c16Vals))...)
	}
	// keys that are composite literals built with nested Dicts, next to qualified keys; equal keys
	// with long values that differ only at their end
	ds = append(ds, c16Over(3, []int{2, 3, 4, 9, 10}, []int{0, 2, 6, 7})...)
	// nested Dicts whose key order depends on import names settled by the enclosing Dict; values
	// that contain comment markers inside string literals
	ds = append(ds, c16Over(3, []int{1, 3, 4, 11}, []int{0, 8, 9, 10})...)
	ds = append(ds, c16Over(3, []int{0, 3, 12, 13}, []int{0, 2})...)
	ds = append(ds, c16Over(3, []int{3, 4, 1}, []int{11, 12, 0})...)
	ds = append(ds, c16Over(3, []int{14, 15, 16, 1}, []int{0})...)
	ds = append(ds, c16Over(3, []int{17, 18, 3}, []int{0, 2})...)
	return ds
}

// c16Explore checks the dicts with index = shard (mod n) under every map order (deviation bound).
func c16Explore(tier ev.Tier, shard, n int) c16Result {
	res := c16Result{Complete: true, Outcomes: map[string]int64{}}
	dev := 1
	if tier == ev.Thorough {
		dev = 2
	}
	deadline := time.Now().Add(35 * time.Minute)
	for i, d := range c16Space(tier) {
		if i%n != shard {
			continue
		}
		if time.Now().After(deadline) {
			res.Complete = false // the parent reports the run as not exhaustive
			break
		}
		res.Dicts++
		nv := c16Variants
		if tier != ev.Thorough && len(d.Pairs) > 3 {
			nv = 1 // quick: the file variants only for Dicts of up to 3 pairs
		}
		for variant := 0; variant < nv; variant++ {
			variant := variant
			if variant >= 3 && (len(d.Pairs) > 3 || tier != ev.Thorough && len(d.Pairs) > 2) {
				continue // the wrapped-Dict and pre-collision variants: Dicts of up to 2 (thorough: 3) pairs
			}
			outputs := map[string][]int{}
			var firstBad string
			st := explore.Explore(explore.Options{MaxDev: dev, Workers: 1}, func(c *explore.Ctx) {
				ctl := env.NewController(func(site string, n int) []int {
					perms, _ := c07Perms(n)
					return perms[c.Choose(len(perms))]
				})
				remove := env.Install(ctl)
				o := c16RenderVariant(d, ctl, variant)
				remove()
				res.RangeExecs += int64(ctl.Ranges)
				if c.Devs > 0 {
					res.Deviating++
				}
				if _, ok := outputs[o.Key()]; !ok {
					outputs[o.Key()] = c.Vector()
					if msg := c16Judge(d, o); msg != "" && firstBad == "" {
						firstBad = msg
						if len(res.Violations) < 20 {
							desc := fmt.Sprintf("%s (file variant %d) under map-order vector %v", d, variant, c.Vector())
							res.Violations = append(res.Violations, ev.Violation{Signature: "c16:" + problemKind(msg), What: desc + ": " + msg,
								Case: ev.JSON(c16Case{Dict: d, Vector: c.Vector(), Variant: variant, Desc: desc}), Detail: msg})
						}
					}
				}
			})
			res.Executions += st.Executions
			if len(outputs) > 1 && len(res.Violations) < 40 {
				var vs []string
				var vec []int
				for k, v := range outputs {
					vs = append(vs, fmt.Sprintf("%v -> %s", v, jh.Short(k, 300)))
					if len(v) > len(vec) {
						vec = v
					}
				}
				sort.Strings(vs)
				desc := fmt.Sprintf("%s (file variant %d) has %d different renderings depending on map iteration order", d, variant, len(outputs))
				res.Violations = append(res.Violations, ev.Violation{Signature: "c16:order-dependent", What: desc,
					Case: ev.JSON(c16Case{Dict: d, Vector: vec, Variant: variant, Desc: desc}), Detail: strings.Join(vs, "\n")})
			}
			if variant == 0 && len(d.Pairs) >= 3 && len(res.Samples) < 2 && i%7 == 0 {
				res.Samples = append(res.Samples, map[string]any{"dict": d.String(), "executions": st.Executions, "raw_output": c16Render(d, nil).Out})
			}
		}
		res.Outcomes[fmt.Sprintf("pairs=%d", len(d.Pairs))]++
	}
	if shard == 0 {
		c16Large(&res)
	}
	return res
}

// c16Large: Dicts of 7..150 pairs (string, identifier and qualified keys), under identity,
// reversed and every rotated map order at each range execution.
func c16Large(res *c16Result) {
	for _, n := range []int{7, 20, 60, 150} {
		build := func(ctl *env.Controller) (jh.Outcome, []string) {
			dict := jen.Dict{}
			var want []string
			for i := 0; i < n; i++ {
				var k jen.Code
				var kt string
				switch i % 3 {
				case 0:
					kt = fmt.Sprintf("%q", fmt.Sprintf("k%03d", (i*37)%n))
					k = jen.Lit(fmt.Sprintf("k%03d", (i*37)%n))
				case 1:
					kt = fmt.Sprintf("K%03d", (i*11)%n)
					k = jen.Id(kt)
				default:
					kt = fmt.Sprintf("f.X%03d", i)
					k = jen.Qual("a/f", fmt.Sprintf("X%03d", i))
				}
				ctl.Key(k)
				dict[k] = jen.Lit(i)
				want = append(want, fmt.Sprintf("%s : %d", kt, i))
			}
			f := jen.NewFile("p")
			f.NoFormat = true
			f.Var().Id("x").Op("=").Id("T").Values(dict)
			sort.Strings(want)
			return jh.RenderFile(f), want
		}
		outputs := map[string]bool{}
		st := explore.Explore(explore.Options{MaxDev: 1, Workers: 1}, func(c *explore.Ctx) {
			ctl := env.NewController(func(site string, n int) []int {
				perms, _ := c07Perms(n)
				return perms[c.Choose(len(perms))]
			})
			remove := env.Install(ctl)
			o, want := build(ctl)
			remove()
			res.RangeExecs += int64(ctl.Ranges)
			if c.Devs > 0 {
				res.Deviating++
			}
			if outputs[o.Key()] {
				return
			}
			outputs[o.Key()] = true
			msg := ""
			if !o.OK() {
				msg = "render failed: " + jh.Short(o.String(), 200)
			} else if af, fset, err := jh.ParseFile(o.Out); err != nil {
				msg = "output does not parse: " + err.Error()
			} else {
				var got, keys []string
				ast.Inspect(af, func(nd ast.Node) bool {
					if kv, ok := nd.(*ast.KeyValueExpr); ok {
						src := func(x ast.Node) string { return o.Out[fset.Position(x.Pos()).Offset:fset.Position(x.End()).Offset] }
						got = append(got, strings.ReplaceAll(stripSpace(src(kv.Key)), ",}", "}")+" : "+strings.ReplaceAll(stripSpace(src(kv.Value)), ",}", "}"))
						keys = append(keys, src(kv.Key))
					}
					return true
				})
				sorted := append([]string(nil), got...)
				sort.Strings(sorted)
				switch {
				case strings.Join(sorted, "\n") != strings.Join(want, "\n"):
					msg = fmt.Sprintf("a Dict of %d pairs renders %d pairs that are not exactly the given ones", n, len(got))
				case !sort.StringsAreSorted(keys):
					msg = fmt.Sprintf("a Dict of %d pairs is not ordered by key text", n)
				}
			}
			if msg != "" && len(res.Violations) < 20 {
				res.Violations = append(res.Violations, ev.Violation{Signature: "c16:large:" + problemKind(msg), What: fmt.Sprintf("%s (map-order vector %v)", msg, c.Vector()), Case: ev.JSON(c16Case{Desc: "large", Variant: -n}), Detail: msg})
			}
		})
		res.Executions += st.Executions
		if len(outputs) > 1 && len(res.Violations) < 40 {
			res.Violations = append(res.Violations, ev.Violation{Signature: "c16:large:order-dependent", What: fmt.Sprintf("a Dict of %d pairs has %d different renderings depending on map iteration order", n, len(outputs)), Case: ev.JSON(c16Case{Desc: "large", Variant: -n})})
		}
	}
}

// C16Shard is the body of the `c16shard` subcommand.
func C16Shard(tier string, shard, n int) {
	json.NewEncoder(os.Stdout).Encode(c16Explore(ev.Tier(tier), shard, n))
}

func runC16(r *ev.Recorder) {
	if !env.Instrumented {
		fmt.Fprintln(os.Stderr, "C16 needs the instrumented build (run it through run.sh)")
		os.Exit(2)
	}
	var knames, vnames []string
	for _, k := range c16Keys {
		knames = append(knames, k.name)
	}
	for _, v := range c16Vals {
		vnames = append(vnames, v.name)
	}
	r.Rule = fmt.Sprintf("every multiset of pairs over key kinds %v and value kinds %v (quick: <= 3 pairs over the first 9x6 kinds, 4 pairs over the first 7x4, 2 pairs over all 11x8; thorough: <= 4 over 9x6, 5 over 6x3, 3 over all; both: <= 3 pairs over {f(), Qual, Qual, two composite-literal keys built with nested Dicts} x {1, Qual, two 400-byte strings differing in their last byte}), each key a fresh object (so keys with equal text are distinct map keys), "+
		"rendered raw as `var x = T{...}` - alone in a fresh File, after the qualified paths were made anonymous imports, and after another Dict in the same File with the File rendered twice - under EVERY map iteration order of every dynamic range execution (instrumented build; all n! permutations, deviation bound 1 quick / 2 thorough). "+
		"Also Dicts of 7, 20, 60 and 150 pairs (string, identifier and qualified keys) under identity, reversed and every rotated order. Oracle on the parsed raw output: the literal's key:value pairs are exactly the multiset of non-null pairs (qualified names resolved through the import block, not through jennifer), "+
		"ordered by the raw rendered key text, one pair inline and several one per line; and one outcome per Dict over all orders. "+
		"states = executions, transitions = dynamic map-range executions answered; distinct_nontrivial = executions with a deviating order (distinct by construction)", knames, vnames)
	r.Assume = []string{"maps with more than 4 entries get identity, reverse and rotations only", "Dicts larger than the bounds and other key/value expressions are outside the bound"}
	self := os.Getenv("VERIF_SELF")
	const nshards = 16
	results := make([]c16Result, nshards)
	if self == "" {
		for i := range results {
			results[i] = c16Explore(r.Tier, i, nshards)
		}
	} else {
		r.External(func() {
			var wg sync.WaitGroup
			for i := range results {
				i := i
				wg.Add(1)
				go func() {
					defer wg.Done()
					out, err := shardCommand(self, "c16shard", string(r.Tier), fmt.Sprint(i), fmt.Sprint(nshards)).Output()
					if err != nil || json.Unmarshal(out, &results[i]) != nil {
						fmt.Fprintf(os.Stderr, "C16: shard %d failed: %v\n%s\n", i, err, jh.Short(string(out), 2000))
						os.Exit(2)
					}
				}()
			}
			wg.Wait()
		})
	}
	var total, ranges, dicts int64
	classes := map[string]int64{}
	for si, res := range results {
		r.Eval(res.Executions)
		total += res.Executions
		ranges += res.RangeExecs
		dicts += res.Dicts
		for k := int64(0); k < res.Deviating; k++ {
			r.Distinct(fmt.Sprintf("%d#%d", si, k))
		}
		for _, v := range res.Violations {
			r.Violate(v)
		}
		for _, s := range res.Samples {
			r.Sample(s)
		}
		for k, n := range res.Outcomes {
			classes[k] += n
		}
		if !res.Complete {
			r.NotExhaustive(fmt.Sprintf("shard %d stopped at its 35-minute deadline", si))
		}
	}
	r.Note("states", total)
	r.Note("transitions", ranges)
	r.Note("traces_validated_against_impl", total)
	r.Note("dicts", dicts)
	r.Note("dicts_by_size", classes)
}

func replayC16(raw json.RawMessage) (bool, string) {
	if !env.Instrumented {
		return true, "needs the instrumented build"
	}
	var c c16Case
	if err := json.Unmarshal(raw, &c); err != nil {
		return true, "bad case"
	}
	if c.Variant < 0 {
		return true, "large-Dict cases are replayed by running the check"
	}
	run := func(vec []int) jh.Outcome {
		rp := explore.NewReplay(vec)
		ctl := env.NewController(func(site string, n int) []int {
			perms, _ := c07Perms(n)
			return perms[rp.Choose(len(perms))]
		})
		remove := env.Install(ctl)
		defer remove()
		return c16RenderVariant(c.Dict, ctl, c.Variant)
	}
	o, canon := run(c.Vector), run(nil)
	msg := c16Judge(c.Dict, o)
	if msg == "" && o.Key() != canon.Key() {
		msg = fmt.Sprintf("output differs from the canonical-order output:\n%s\n--- canonical:\n%s", o, canon)
	}
	return msg == "", c.Desc + ": " + msg
}
