#!/bin/bash
# run.sh <property-id> [quick|thorough]
# Rebuilds the checker against the CURRENT working tree of the repository ($JEN_REPO, default
# /repo), runs the check for one property and leaves /verif/evidence/<id>.json behind.
# exit 0: property held on everything explored; exit 1: VIOLATION line printed; exit 2: harness or
# build problem (never reported as a violation).
set -u
ID=${1:?usage: run.sh <ID> [quick|thorough]}
TIER=${2:-${VERIF_TIER:-quick}}
HERE=$(cd "$(dirname "$0")" && pwd)
cd "$HERE"
export GOFLAGS=-mod=mod GOPROXY=off GOSUMDB=off GOTOOLCHAIN=local
export VERIF_ROOT="$HERE"
REPO=${JEN_REPO:-/repo}
SCR=$(mktemp -d "${TMPDIR:-/tmp}/verif-run.XXXXXX") || exit 2
trap 'rm -rf "$SCR"' EXIT
sed "s#=> /repo\$#=> $REPO#" go.mod > "$SCR/go.mod"
[ -f go.sum ] && cp go.sum "$SCR/go.sum"
MODFLAG="-modfile=$SCR/go.mod"

# the list of package-level functions of the tree under test (cannot be reflected) is regenerated
# and laid over checks/zz_api_gen.go
go run $MODFLAG ./cmd/genapi "$REPO/jen" "$SCR/zz_api_gen.go" >"$SCR/genapi.log" 2>&1 || { cat "$SCR/genapi.log"; echo "API GENERATION FAILURE"; exit 2; }
printf '{"Replace": {"%s": "%s"}}\n' "$HERE/checks/zz_api_gen.go" "$SCR/zz_api_gen.go" > "$SCR/overlay-plain.json"
go build $MODFLAG -overlay "$SCR/overlay-plain.json" -o "$SCR/verif" ./cmd/verif >"$SCR/build.log" 2>&1 || { cat "$SCR/build.log"; echo "BUILD FAILURE (plain variant)"; exit 2; }
VARIANT=$("$SCR/verif" variant "$ID") || { echo "unknown property $ID"; exit 2; }
BIN="$SCR/verif"
if [ "$VARIANT" = instr ]; then
  go run $MODFLAG ./cmd/instr "$REPO/jen" "$SCR/instr" >"$SCR/instr.log" 2>&1 || { cat "$SCR/instr.log"; echo "INSTRUMENTATION FAILURE"; exit 2; }
  python3 - "$SCR/instr/overlay.json" "$SCR/overlay-plain.json" "$SCR/overlay-instr.json" <<'PY' || exit 2
import json, sys
a = json.load(open(sys.argv[1])); b = json.load(open(sys.argv[2]))
a["Replace"].update(b["Replace"]); json.dump(a, open(sys.argv[3], "w"))
PY
  go build $MODFLAG -tags verif -overlay "$SCR/overlay-instr.json" -o "$SCR/verif-instr" ./cmd/verif >"$SCR/build.log" 2>&1 || { cat "$SCR/build.log"; echo "BUILD FAILURE (instr variant)"; exit 2; }
  BIN="$SCR/verif-instr"
  export VERIF_INSTR_LOG="$SCR/instr.log"
  if [ "$ID" = C09 ]; then
    go build $MODFLAG -race -overlay "$SCR/overlay-plain.json" -o "$SCR/verif-race" ./cmd/verif >"$SCR/build.log" 2>&1 || { cat "$SCR/build.log"; echo "BUILD FAILURE (race variant)"; exit 2; }
    export VERIF_RACE_BIN="$SCR/verif-race"
  fi
fi
if [ "$ID" = C18 ]; then
  (cd "$REPO" && go build -o "$SCR/gennames" ./gennames) >"$SCR/build.log" 2>&1 || { cat "$SCR/build.log"; echo "BUILD FAILURE (gennames)"; exit 2; }
  export VERIF_GENNAMES="$SCR/gennames"
fi
export VERIF_SELF="$BIN" VERIF_REPO="$REPO" VERIF_SCRATCH="$SCR"
"$BIN" check "$ID" "$TIER"
