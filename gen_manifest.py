#!/usr/bin/env python3
"""Generates MANIFEST.json from the table below (kept in one place so that it is always valid)."""
import json
CHECKS = {}
def check(id, cat, technique, text, note, ref, engine):
    CHECKS[id] = dict(cat=cat, technique=technique, text=text, note=note, ref=ref, engine=engine)

check("C12", "exploration",
      "exhaustive enumeration of finite literal domains (all bytes, all code points, all short strings over 256 byte values / 26 adversarial units) against go/scanner + strconv",
      "Every element of the stated finite domains is rendered by the real implementation and judged; within those bounds the property is decided, not sampled.",
      "go/scanner, strconv and go/types are the definition of a literal's value; longer strings and other characters are outside the bound.",
      "DESIGN.md §3 C12", "E1-range")

check("C11", "exploration",
      "exhaustive enumeration of complete small numeric domains (all 8/16-bit integers; thorough: all 2^32 float32 bit patterns) and complete structured families for wider types, each judged by go/types constant evaluation",
      "Every value of the enumerated domains is rendered by the real Lit/LitFunc and the text is evaluated as a constant by go/types; inside the bounds the property is decided, not sampled.",
      "go/types + go/constant define constant value/type; -0.0 compared with ==; 32/64-bit values outside the structured families are outside the bound (float32 complete in thorough).",
      "DESIGN.md §3 C11", "E1-range")
check("C17", "exploration",
      "exhaustive enumeration of tag maps (all byte strings <=2 for one key; all unit strings; all key pairs/triples around the ':' separator) against reflect.StructTag",
      "Every map of the enumerated families goes through the real Tag renderer, is parsed back and read with reflect.StructTag.",
      "reflect.StructTag and go/parser define how a tag reads; other keys / longer values are outside the bound.",
      "DESIGN.md §3 C17", "E1-range")
check("C20", "model_checking",
      "explicit-state BFS over the real Statement API (three alphabets: appends of 1-3 tokens / Call / Tag / RenderWithFile; neighbour-sensitive tokens Line, Case, Block; Add of one caller-owned slice, same-named Quals, Do with a Clone taken inside, a callback literal; Clone and clones of clones in all of them) with a list model as invariant in every state",
      "All histories up to the depth bound over a pool of 3-4 statements are executed on the implementation, de-duplicated on (parent, len, cap, rendering, reflection dump of the statement's tree, the oracle's own sets of acceptable parent renderings); the invariant - token texts taken from clone-free twins built on the real API - is evaluated in every distinct state.",
      "Both snapshot and live-view semantics of Clone are accepted; histories longer than the bound are outside it. traces_validated = transitions: every transition executes the implementation.",
      "DESIGN.md §3 C20", "E2")
IMP = "explicit-state BFS over the real File API in every operation order (dedup on a reflection dump of the File) + choice-point enumeration of canonical pre-render histories per path family; oracle go/parser + go/types with a fabricated importer"
check("C03", "model_checking", IMP,
      "Every distinct File state reachable by <= depth raw operations is rendered and type-checked; beyond that depth the canonical forms of pre-render histories are enumerated exhaustively within a deviation bound.",
      "ImportName is only given true names; the canonical-form reduction rests on the pre-render operations touching disjoint File fields, which the BFS checks on the real code in every order; beyond the bounds nothing is claimed.",
      "DESIGN.md §3 C03", "E2+E1")
check("C04", "model_checking", IMP + "; exact import-set oracle",
      "All reachable File states within the depth bound, and canonical histories over all 14 reference positions (3 of which must render nothing), hint tables, anonymous imports, local path and cgo preambles, are rendered and their import block compared with the exact expected set.",
      "Expected set = paths of rendered references except the local path + anonymous imports (+ C with a preamble).",
      "DESIGN.md §3 C04", "E2+E1")
check("C05", "exploration",
      "exhaustive enumeration: every keyword / universe name x placement x competitors x order; every path string of length <= 5 (6) over 10 character classes; path families competing for one name; oracle go/token + types.Universe + go/types",
      "The finite domains named in the property (all keywords, all predeclared identifiers of the installed toolchain) are covered completely; path strings completely up to the length bound over the character classes the guessing code distinguishes.",
      "Keywords / predeclared names come from go/token and go/types, never from jennifer; longer paths and other characters are outside the bound.",
      "DESIGN.md §3 C05", "E1")
check("C06", "model_checking", IMP + "; local/dot oracle",
      "All reachable File states within the depth bound plus canonical histories for four local-path families via the path constructors (incl. package names ending in _test), every subset of dot-imported paths, prefix on/off and set before / after a first render, CanonicalPath, a re-hint after a render; 0..260 ordinary imports around 1-3 dot-imports.",
      "Dot status = last hint before the first render; a path rendered bare once stays a dot-import.",
      "DESIGN.md §3 C06", "E2+E1")
check("C19", "model_checking", IMP + "; cgo layout oracle",
      "All orders of Qual C / Anon C / hints naming C / preamble blocks / prefix up to the depth bound, plus canonical histories over 14 preamble lists, hint kinds, NoFormat, prefix timing, and all histories of 5 (6) operations that include renders.",
      "Comment text compared line-wise trimmed (gofmt may re-indent).",
      "DESIGN.md §3 C19", "E2+E1")

check("C08", "model_checking",
      "explicit-state BFS over the real File + fragments with File.Render / RenderWithFile themselves in the operation alphabet; name-stability and repeatability invariant in every distinct state",
      "All histories up to the depth bound of additions, renders (File.Render, File.GoString, fragment renders, a fragment render into a failing writer, a File render into a writer that accepts the text and then reports a failure), placeholders filled later, one Block group used in two statements, late ImportName/ImportAlias (incl. dot and _), Anon, prefix and NoFormat are executed on the implementation; every state renders everything twice and compares with all names observed earlier in the history. A second BFS over file-level operations compares every state with a twin that was never rendered before; every construct x argument combination is rendered, its arguments changed in place, and rendered again against such a twin.",
      "Anon only on never-referenced paths; unused imports caused by fragment renders are allowed; longer histories are outside the bound.",
      "DESIGN.md §3 C08", "E2")
check("C10", "fault_enumeration",
      "exhaustive enumeration of writer answer sequences (ok / error / short write+error at every Write call, each error wrapping one of 9 identities real writers fail with, via the choice-point explorer) x 7 entry points x valid / invalid / late-panicking trees, and of filesystem situations for Save (incl. a private always-full device); repeated attempts on unrenderable Files",
      "Every answer sequence of the caller's writer is explored to exhaustion whatever number of Write calls the implementation makes; every listed filesystem situation is produced on a real temp directory.",
      "EACCES cannot be produced as root; writers honour the io.Writer contract.",
      "DESIGN.md §3 C10", "E1+E4")
check("C07", "model_checking",
      "environment model checking: source-instrumented map ranges; every permutation at every dynamic range execution within a deviation bound + uniform + native runs in fresh processes; single-outcome oracle",
      "The iteration order of EVERY dynamic `range` over a map inside jennifer is decided by the explorer (the instrumenter finds the ranges by go/types on the current tree), so order dependence is found deterministically instead of by repetition.",
      "Per-site enumeration complete for maps <= 4 entries; at most 2 (quick) / 3 (thorough) deviating range executions per run.",
      "DESIGN.md §3 C07", "E4+E1")
check("C16", "model_checking",
      "exhaustive enumeration of Dicts (multisets of key/value kinds, fresh key objects) x every map iteration order (instrumented ranges), parsed-output oracle",
      "Every Dict of the bounded space is rendered under every iteration order of each range execution (deviation-bounded) and the parsed literal compared with the expected multiset, order and layout.",
      "Key/value expressions outside the 14x13 kinds and larger Dicts are outside the bound; six File variants (alone, after Anon, after another Dict and a render, through ValuesFunc, wrapped in a statement, after earlier name collisions).",
      "DESIGN.md §3 C16", "E4+E1")
check("C09", "model_checking",
      "stateless model checking of goroutine interleavings: cooperative scheduler with scheduling points at every access to package-level state (inserted from go/types), preemption-bounded DFS; plus all render orders / sub-statement sharings; plus a separate free-running -race pass",
      "All interleavings of 2-3 independent build+render (and File.Save) jobs with <= 2 (quick) / 3 (thorough) preemptions, all 120 orders of 5 jobs and all ordered triples of 14 jobs against solo outputs from one pristine process per job, every construct case in ascending and descending order, all sharings of 8 parts between 4 File configurations, independent renders into writers that block; data-race freedom is decided by the race detector pass and the explorer's write report, as a cooperative scheduler cannot see unsynchronised accesses.",
      "Sequential consistency; scheduling points at jennifer's own package-level variables and at its calls into os / io/ioutil; more jobs / preemptions are outside the bound; the blocked-writer phase waits up to 90 s (the one timed oracle).",
      "DESIGN.md §3 C09", "E3+E4+E1")

check("C13", "exploration",
      "reflection-discovered list constructs x arities x every placement of <= 2 (3) null items of 16 kinds (choice-point explorer), differential raw-rendering oracle; Empty() placeholder oracle; re-render after a placeholder changes; shared argument slices",
      "All 56 list constructs found in the current API are exercised at every slot with every null-item kind within the injection bound; the oracle is differential (with vs without the items) on fresh objects.",
      "Empty Types() as an item and Dict{} are not in the property's list; program-level injections belong to the C01 bridge.",
      "DESIGN.md §3 C13", "E1")
check("C14", "exploration",
      "reflection over the whole exported API (120 constructs) x cartesian product of tiny argument domains; byte equality across function / method / group / Func forms and render entry points; callback counters",
      "Every exported construct of the current tree (methods by reflection, package functions from a list regenerated from the sources at every run) is called in every form with every argument combination of the domains.",
      "Argument values outside the tiny domains are outside the bound.",
      "DESIGN.md §3 C14", "E1")
check("C15", "exploration",
      "exhaustive enumeration of comment texts (all strings <= 4 (5) over 12 adversarial symbols) x every slot / item end of 8 hosts x 3 forms, raw and formatted; go/scanner token-sequence oracle; file-level comment lists and canonical paths",
      "Every text of the domain is placed at every position of every host container and both outputs are scanned; containment is decided by comparing code-token sequences.",
      "CR excluded; after gofmt survival is required line-wise (gofmt rewrites comment text), verbatim on the raw output.",
      "DESIGN.md §3 C15", "E1-range")
check("C18", "exploration",
      "complete enumeration of the installed toolchain's package directories (names parsed from package clauses) alone under 18 scenarios and in every ordered pair (same-named pairs under more); gennames built and run under a matrix of its flags, its tables compared entry by entry and with each other",
      "The finite domain named by the property - every package directory of GOROOT/src - is covered completely, as are all ordered pairs.",
      "Package names come from go/parser over GOROOT/src, not from jennifer's table.",
      "DESIGN.md §3 C18", "E1-range")

check("C01", "exploration",
      "complete enumeration of a fixed corpus (every .go file of GOROOT/src and of the repository) + deviation-bounded enumeration of a Go-source generator, each program translated construct by construct into DSL calls, rendered, re-parsed and compared as canonical syntax trees",
      "Every file of the finite corpus and every generated program with <= 3 (quick) / 4 (thorough) non-default productions goes through the real DSL and renderer; the oracle is syntax-tree equality computed by go/parser on both sides.",
      "Files with dot imports / a path imported twice are skipped and counted; gofmt damaging the reference program itself is attributed to gofmt and counted; deeper programs outside the corpus are outside the bound.",
      "DESIGN.md §3 C01", "E5+E1")
check("C02", "exploration",
      "exhaustive enumeration of 1- and 2-construct compositions over the whole reflected API with nonsensical arguments, all File-setting combinations, every single damage at every item of every list site of generated programs, every text of length <= 4 over a comment alphabet as package / header comment over bodies that can close it; twin oracle formatted == gofmt(raw of an identically built File), also under different map iteration orders",
      "All compositions within the stated size are built twice (formatted / NoFormat twin) on the implementation and judged; both outcome classes (valid, error) are populated.",
      "Documented deliberate panics are outside the alphabet; a fragment that is a complete file by itself is tolerated for Statement.Render.",
      "DESIGN.md §3 C02", "E1+E5+E4")

NOT_YET = {}
ids = [json.loads(l)['id'] for l in open('/verif/properties.jsonl')]
m = {
 "version": 1,
 "setup_cmd": "./setup.sh",
 "hooks": {
  "guard": "verif",
  "enable": "no source commits: cmd/instr rewrites a copy of /repo/jen at check time (map ranges -> controlled order, scheduling points at package-level state) and the checker is built with `go build -tags verif -overlay <generated overlay.json>`; the generated files carry //go:build verif",
  "baseline_off_cmd": "cd /repo && GOFLAGS=-mod=mod GOPROXY=off GOSUMDB=off GOTOOLCHAIN=local go test -json -vet=off -count=1 ./...",
  "source_commits": [],
  "add_only": True
 },
 "engines": [
  {"name": "E1", "path": "internal/explore", "serves_properties": ["C03","C04","C05","C06","C07","C09","C10","C11","C12","C16","C17","C19"], "kind_free_text": "stateless deviation-bounded DFS over choice points of generator programs + parallel enumeration of finite domains"},
  {"name": "E2", "path": "internal/statespace", "serves_properties": ["C03","C04","C06","C08","C19","C20"], "kind_free_text": "explicit-state BFS over the real implementation (state = history replayed on fresh objects, canonical key by reflection, invariant in every distinct state)"},
  {"name": "E3", "path": "internal/sched", "serves_properties": ["C09"], "kind_free_text": "cooperative scheduler over real goroutines, preemption-bounded schedule enumeration through E1, snapshot/restore of package-level variables"},
  {"name": "E4", "path": "cmd/instr + internal/env", "serves_properties": ["C07","C09","C16"], "kind_free_text": "go/types-driven source instrumenter (overlay build): controlled map iteration order, scheduling points at package-level state; fault-injecting writer"},
  {"name": "E5", "path": "internal/a2j + internal/norm + checks/gogen.go", "serves_properties": ["C01","C02"], "kind_free_text": "go/ast -> DSL translator, canonical syntax-tree printer, choice-point generator of Go source files"},
 ],
 "checks": [],
 "not_applicable": [],
 "notes": "All checks: ./run.sh <ID> <tier>; exit 0 held / 1 VIOLATION / 2 harness problem. Known findings: known_findings.json. Seeded changes: seeded/."
}
for id in ids:
    if id in CHECKS:
        c = CHECKS[id]
        m["checks"].append({
            "property_id": id,
            "quick_cmd": "./run.sh %s quick" % id,
            "thorough_cmd": "./run.sh %s thorough" % id,
            "evidence_file": "/verif/evidence/%s.json" % id,
            "replay_cmd_template": "./replay.sh {path}",
            "engine": c["engine"],
            "level_claimed": {"category": c["cat"], "text": c["text"], "design_ref": c["ref"]},
            "level_note": c["note"],
            "technique": c["technique"],
        })
    else:
        m["not_applicable"].append({"property_id": id, "reason": NOT_YET.get(id, "check not built yet in this session (work in progress; model checking applies, see DESIGN.md)")})
json.dump(m, open('/verif/MANIFEST.json', 'w'), indent=1)
print("claimed", len(m["checks"]), "not_applicable", len(m["not_applicable"]))
