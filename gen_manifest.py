#!/usr/bin/env python3
"""Generates MANIFEST.json from the table below (kept in one place so that it is always valid)."""
import json
CHECKS = {}
def check(id, cat, technique, text, note, ref, engine):
    CHECKS[id] = dict(cat=cat, technique=technique, text=text, note=note, ref=ref, engine=engine)

check("C12", "exploration",
      "exhaustive enumeration of finite literal domains (all bytes, all code points, all short strings over 256 byte values / 26 adversarial units) against go/scanner + strconv",
      "Every element of the stated finite domains is rendered by the real implementation and judged; within those bounds the property is decided, not sampled.",
      "go/scanner, strconv and go/types are the definition of a literal's value; longer strings and other characters are outside the bound.",
      "DESIGN.md §3 C12", "E1-range")

NOT_YET = {}
ids = [json.loads(l)['id'] for l in open('/verif/properties.jsonl')]
m = {
 "version": 1,
 "setup_cmd": "./setup.sh",
 "hooks": {
  "guard": "verif",
  "enable": "no source commits: cmd/instr rewrites a copy of /repo/jen at check time (map ranges -> controlled order, scheduling points at package-level state) and the checker is built with `go build -tags verif -overlay <generated overlay.json>`; the generated files carry //go:build verif",
  "baseline_off_cmd": "cd /repo && GOFLAGS=-mod=mod GOPROXY=off GOSUMDB=off GOTOOLCHAIN=local go test -json -vet=off -count=1 ./...",
  "source_commits": [],
  "add_only": True
 },
 "engines": [
  {"name": "E1", "path": "internal/explore", "serves_properties": [], "kind_free_text": "stateless deviation-bounded DFS over choice points of generator programs + parallel enumeration of finite domains"},
 ],
 "checks": [],
 "not_applicable": [],
 "notes": "All checks: ./run.sh <ID> <tier>; exit 0 held / 1 VIOLATION / 2 harness problem. Known findings: known_findings.json. Seeded changes: seeded/."
}
for id in ids:
    if id in CHECKS:
        c = CHECKS[id]
        m["checks"].append({
            "property_id": id,
            "quick_cmd": "./run.sh %s quick" % id,
            "thorough_cmd": "./run.sh %s thorough" % id,
            "evidence_file": "/verif/evidence/%s.json" % id,
            "replay_cmd_template": "./replay.sh {path}",
            "engine": c["engine"],
            "level_claimed": {"category": c["cat"], "text": c["text"], "design_ref": c["ref"]},
            "level_note": c["note"],
            "technique": c["technique"],
        })
    else:
        m["not_applicable"].append({"property_id": id, "reason": NOT_YET.get(id, "check not built yet in this session (work in progress; model checking applies, see DESIGN.md)")})
json.dump(m, open('/verif/MANIFEST.json', 'w'), indent=1)
print("claimed", len(m["checks"]), "not_applicable", len(m["not_applicable"]))
