//go:build verif

package env

import "github.com/dave/jennifer/jen"

// Instrumented reports whether jennifer was built through cmd/instr's overlay.
const Instrumented = true

func init() {
	jen.VerifPerm = permHook
	jen.VerifRank = rankHook
	jen.VerifEnabled = func() bool { return current != nil }
}

// SetPointHook installs the scheduler's hook for accesses to package-level state.
func SetPointHook(f func(site string)) { jen.VerifPointHook = f }

// Globals returns pointers to jennifer's package-level variables.
func Globals() map[string]any { return jen.VerifGlobals() }

// Uncontrolled returns how many map-range executions could not be put under control.
func Uncontrolled() int {
	n := 0
	for _, c := range jen.VerifUncontrolled {
		n += c
	}
	return n
}

// UncontrolledSites lists them per site.
func UncontrolledSites() map[string]int { return jen.VerifUncontrolled }
