// Package env is the harness side of engine E4: it owns the environment answers that the
// instrumented jennifer build asks for - the order in which every `range` over a map yields its
// keys, and the scheduling points at accesses to package-level state. With a plain
// (uninstrumented) build Instrumented is false and nothing can be controlled.
package env

import (
	"sync"
)

// OrderFunc decides the permutation applied to the canonically ordered keys of one dynamic
// execution of a map range (nil = canonical order).
type OrderFunc func(site string, n int) []int

// Controller is the per-execution environment of one goroutine.
type Controller struct {
	Order OrderFunc
	ranks map[any]int
	next  int
	// Ranges counts dynamic map-range executions seen (with at least 2 keys).
	Ranges int
	Sites  map[string]int
}

// NewController makes a controller with the given order function.
func NewController(order OrderFunc) *Controller {
	return &Controller{Order: order, ranks: map[any]int{}, Sites: map[string]int{}}
}

// Key enrols a map key object (a Code value) in the canonical base order: keys are ranked in
// the order in which the harness created them.
func (c *Controller) Key(k any) {
	if _, ok := c.ranks[k]; !ok {
		c.ranks[k] = c.next
		c.next++
	}
}

// One controller at a time per process: the hooks are package-level variables of jennifer, and
// finding "the current goroutine's controller" would need a goroutine id, which costs a full
// stack traceback per call. Executions under environment control therefore run sequentially
// within a process; checks that want parallelism shard their work over worker processes.
var (
	mu      sync.Mutex
	current *Controller
)

// Install makes c the environment until the returned function is called.
func Install(c *Controller) (remove func()) {
	mu.Lock()
	if current != nil {
		mu.Unlock()
		panic("env: a controller is already installed (executions under environment control must not overlap)")
	}
	current = c
	mu.Unlock()
	return func() {
		mu.Lock()
		current = nil
		mu.Unlock()
	}
}

func permHook(site string, n int) []int {
	c := current
	if c == nil {
		return nil
	}
	c.Ranges++
	c.Sites[site]++
	if c.Order == nil {
		return nil
	}
	return c.Order(site, n)
}

func rankHook(k any) (int, bool) {
	c := current
	if c == nil {
		return 0, false
	}
	r, ok := c.ranks[k]
	return r, ok
}
