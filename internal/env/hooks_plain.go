//go:build !verif

package env

// Instrumented reports whether jennifer was built through cmd/instr's overlay.
const Instrumented = false

func SetPointHook(f func(site string))  {}
func Globals() map[string]any           { return nil }
func Uncontrolled() int                 { return 0 }
func UncontrolledSites() map[string]int { return nil }
