package norm

import (
	"fmt"
	"go/ast"
	"go/constant"
	"go/token"
	"sort"
	"strconv"
	"strings"
)

// Package norm prints a syntax tree in a canonical form that ignores positions, comments,
// parentheses, explicit empty statements and literal spelling.
type normer struct{ sb strings.Builder }

func normExpr(e ast.Expr) string { n := &normer{}; n.expr(e); return n.sb.String() }

// Expr returns the canonical form of an expression (parentheses dropped, literals by value).
func Expr(e ast.Expr) string { return normExpr(e) }

func (n *normer) w(s string, a ...interface{}) { fmt.Fprintf(&n.sb, s, a...) }

func (n *normer) exprs(es []ast.Expr) {
	n.w("[")
	for _, e := range es {
		n.expr(e)
		n.w(",")
	}
	n.w("]")
}

func (n *normer) idents(es []*ast.Ident) {
	n.w("[")
	for _, e := range es {
		n.w("%s,", e.Name)
	}
	n.w("]")
}

func (n *normer) fields(fl *ast.FieldList) {
	if fl == nil {
		n.w("nofields")
		return
	}
	n.w("fields[")
	for _, f := range fl.List {
		n.w("{")
		n.idents(f.Names)
		n.expr(f.Type)
		if f.Tag != nil {
			n.tag(f.Tag)
		}
		n.w("}")
	}
	n.w("]")
}

// SimpleKeys: every element is key: value with a basic literal or an identifier as key.
func SimpleKeys(elts []ast.Expr) bool {
	for _, el := range elts {
		kv, ok := el.(*ast.KeyValueExpr)
		if !ok {
			return false
		}
		switch kv.Key.(type) {
		case *ast.BasicLit, *ast.Ident:
		default:
			return false
		}
	}
	return len(elts) > 0
}

// tag prints a struct tag; a tag in conventional format is printed as its key-sorted pairs
// (jennifer's Tag documents sorted keys), any other as the string value.
func (n *normer) tag(l *ast.BasicLit) {
	s, err := strconv.Unquote(l.Value)
	if err != nil {
		n.w("tag?%s", l.Value)
		return
	}
	var pairs []string
	rest := s
	ok := true
	for rest != "" {
		rest = strings.TrimLeft(rest, " ")
		if rest == "" {
			break
		}
		i := strings.IndexByte(rest, ':')
		if i <= 0 || strings.ContainsAny(rest[:i], " \"") {
			ok = false
			break
		}
		q, err := strconv.QuotedPrefix(rest[i+1:])
		if err != nil || !strings.HasPrefix(q, "\"") {
			ok = false
			break
		}
		v, _ := strconv.Unquote(q)
		pairs = append(pairs, fmt.Sprintf("%s=%q", rest[:i], v))
		rest = rest[i+1+len(q):]
	}
	if ok && len(pairs) > 0 {
		sort.Strings(pairs)
		n.w("tag{%s}", strings.Join(pairs, ","))
		return
	}
	n.w("tag:%q", s)
}

func (n *normer) expr(e ast.Expr) {
	switch e := e.(type) {
	case nil:
		n.w("nil")
	case *ast.Ident:
		n.w("id:%s", e.Name)
	case *ast.BasicLit:
		switch e.Kind {
		case token.STRING:
			s, _ := strconv.Unquote(e.Value)
			n.w("str:%q", s)
		case token.CHAR:
			v := constant.MakeFromLiteral(e.Value, token.CHAR, 0)
			n.w("num:%s", v.ExactString())
		default:
			v := constant.MakeFromLiteral(e.Value, e.Kind, 0)
			kind := e.Kind
			n.w("%s:%s", kind, v.ExactString())
		}
	case *ast.ParenExpr:
		n.expr(e.X)
	case *ast.SelectorExpr:
		n.w("sel(")
		n.expr(e.X)
		n.w(".%s)", e.Sel.Name)
	case *ast.StarExpr:
		n.w("star(")
		n.expr(e.X)
		n.w(")")
	case *ast.UnaryExpr:
		n.w("un%s(", e.Op)
		n.expr(e.X)
		n.w(")")
	case *ast.BinaryExpr:
		n.w("bin%s(", e.Op)
		n.expr(e.X)
		n.w(",")
		n.expr(e.Y)
		n.w(")")
	case *ast.CallExpr:
		n.w("call(")
		n.expr(e.Fun)
		n.exprs(e.Args)
		n.w("ell=%v)", e.Ellipsis.IsValid())
	case *ast.IndexExpr:
		n.w("index(")
		n.expr(e.X)
		n.exprs([]ast.Expr{e.Index})
		n.w(")")
	case *ast.IndexListExpr:
		n.w("index(")
		n.expr(e.X)
		n.exprs(e.Indices)
		n.w(")")
	case *ast.SliceExpr:
		n.w("slice(")
		n.expr(e.X)
		n.expr(e.Low)
		n.w(":")
		n.expr(e.High)
		n.w(":")
		n.expr(e.Max)
		n.w("3=%v)", e.Slice3)
	case *ast.TypeAssertExpr:
		n.w("assert(")
		n.expr(e.X)
		n.w(",")
		n.expr(e.Type)
		n.w(")")
	case *ast.FuncLit:
		n.w("funclit(")
		n.expr(e.Type)
		n.stmt(e.Body)
		n.w(")")
	case *ast.CompositeLit:
		n.w("complit(")
		n.expr(e.Type)
		allKV := len(e.Elts) > 0
		for _, el := range e.Elts {
			if _, ok := el.(*ast.KeyValueExpr); !ok {
				allKV = false
			}
		}
		if allKV && !SimpleKeys(e.Elts) {
			// Dict orders pairs by key text: compare as a key-sorted list (when all keys are plain
			// literals or identifiers the translator can and does reproduce the source's order, and
			// the order is compared)
			var parts []string
			for _, el := range e.Elts {
				parts = append(parts, normExpr(el))
			}
			sort.Strings(parts)
			n.w("sorted[%s]", strings.Join(parts, ","))
		} else {
			n.exprs(e.Elts)
		}
		n.w(")")
	case *ast.KeyValueExpr:
		n.w("kv(")
		n.expr(e.Key)
		n.w(":")
		n.expr(e.Value)
		n.w(")")
	case *ast.Ellipsis:
		n.w("ellipsis(")
		n.expr(e.Elt)
		n.w(")")
	case *ast.ArrayType:
		n.w("array(")
		n.expr(e.Len)
		n.w(",")
		n.expr(e.Elt)
		n.w(")")
	case *ast.MapType:
		n.w("map(")
		n.expr(e.Key)
		n.w(",")
		n.expr(e.Value)
		n.w(")")
	case *ast.ChanType:
		n.w("chan%d(", e.Dir)
		n.expr(e.Value)
		n.w(")")
	case *ast.FuncType:
		n.w("functype(")
		n.fields(e.TypeParams)
		n.fields(e.Params)
		n.fields(e.Results)
		n.w(")")
	case *ast.StructType:
		n.w("struct(")
		n.fields(e.Fields)
		n.w(")")
	case *ast.InterfaceType:
		n.w("interface(")
		n.fields(e.Methods)
		n.w(")")
	default:
		n.w("?%T", e)
	}
}

func (n *normer) stmts(ss []ast.Stmt) {
	n.w("[")
	for _, s := range ss {
		if es, ok := s.(*ast.EmptyStmt); ok && !es.Implicit {
			continue
		}
		if _, ok := s.(*ast.EmptyStmt); ok {
			continue
		}
		n.stmt(s)
		n.w(";")
	}
	n.w("]")
}

func (n *normer) stmt(s ast.Stmt) {
	switch s := s.(type) {
	case nil:
		n.w("nil")
	case *ast.BlockStmt:
		if s == nil {
			n.w("nobody")
			return
		}
		n.w("block")
		n.stmts(s.List)
	case *ast.EmptyStmt:
		n.w("empty")
	case *ast.ExprStmt:
		n.w("expr(")
		n.expr(s.X)
		n.w(")")
	case *ast.SendStmt:
		n.w("send(")
		n.expr(s.Chan)
		n.w(",")
		n.expr(s.Value)
		n.w(")")
	case *ast.IncDecStmt:
		n.w("incdec%s(", s.Tok)
		n.expr(s.X)
		n.w(")")
	case *ast.AssignStmt:
		n.w("assign%s(", s.Tok)
		n.exprs(s.Lhs)
		n.exprs(s.Rhs)
		n.w(")")
	case *ast.GoStmt:
		n.w("go(")
		n.expr(s.Call)
		n.w(")")
	case *ast.DeferStmt:
		n.w("defer(")
		n.expr(s.Call)
		n.w(")")
	case *ast.ReturnStmt:
		n.w("return")
		n.exprs(s.Results)
	case *ast.BranchStmt:
		n.w("branch%s(", s.Tok)
		if s.Label != nil {
			n.w("%s", s.Label.Name)
		}
		n.w(")")
	case *ast.IfStmt:
		n.w("if(")
		n.stmt(s.Init)
		n.w(";")
		n.expr(s.Cond)
		n.stmt(s.Body)
		n.w("else ")
		n.stmt(s.Else)
		n.w(")")
	case *ast.CaseClause:
		n.w("case(")
		if s.List == nil {
			n.w("default")
		} else {
			n.exprs(s.List)
		}
		n.stmts(s.Body)
		n.w(")")
	case *ast.CommClause:
		n.w("comm(")
		n.stmt(s.Comm)
		n.stmts(s.Body)
		n.w(")")
	case *ast.SwitchStmt:
		n.w("switch(")
		n.stmt(s.Init)
		n.w(";")
		n.expr(s.Tag)
		n.stmt(s.Body)
		n.w(")")
	case *ast.TypeSwitchStmt:
		n.w("typeswitch(")
		n.stmt(s.Init)
		n.w(";")
		n.stmt(s.Assign)
		n.stmt(s.Body)
		n.w(")")
	case *ast.SelectStmt:
		n.w("select(")
		n.stmt(s.Body)
		n.w(")")
	case *ast.ForStmt:
		n.w("for(")
		n.stmt(s.Init)
		n.w(";")
		n.expr(s.Cond)
		n.w(";")
		n.stmt(s.Post)
		n.stmt(s.Body)
		n.w(")")
	case *ast.RangeStmt:
		n.w("range%s(", s.Tok)
		n.expr(s.Key)
		n.w(",")
		n.expr(s.Value)
		n.w(",")
		n.expr(s.X)
		n.stmt(s.Body)
		n.w(")")
	case *ast.LabeledStmt:
		n.w("label(%s,", s.Label.Name)
		n.stmt(s.Stmt)
		n.w(")")
	case *ast.DeclStmt:
		n.decl(s.Decl)
	default:
		n.w("?%T", s)
	}
}

func (n *normer) decl(d ast.Decl) {
	switch d := d.(type) {
	case *ast.GenDecl:
		n.w("gen%s(paren=%v", d.Tok, d.Lparen.IsValid())
		for _, sp := range d.Specs {
			switch sp := sp.(type) {
			case *ast.ValueSpec:
				n.w("value(")
				n.idents(sp.Names)
				n.expr(sp.Type)
				n.exprs(sp.Values)
				n.w(")")
			case *ast.TypeSpec:
				n.w("type(%s,", sp.Name.Name)
				n.fields(sp.TypeParams)
				n.w("alias=%v,", sp.Assign.IsValid())
				n.expr(sp.Type)
				n.w(")")
			}
		}
		n.w(")")
	case *ast.FuncDecl:
		n.w("func(")
		n.fields(d.Recv)
		n.w("%s,", d.Name.Name)
		n.expr(d.Type)
		if d.Body == nil {
			n.w("nobody")
		} else {
			n.stmt(d.Body)
		}
		n.w(")")
	}
}

// File returns the package name, the sorted import set (name + path) and one canonical string
// per non-import declaration.
func File(f *ast.File) (string, []string, []string) {
	var imps []string
	for _, is := range f.Imports {
		name := ""
		if is.Name != nil {
			name = is.Name.Name
		}
		imps = append(imps, name+" "+is.Path.Value)
	}
	sort.Strings(imps)
	var decls []string
	for _, d := range f.Decls {
		if g, ok := d.(*ast.GenDecl); ok && g.Tok == token.IMPORT {
			continue
		}
		n := &normer{}
		n.decl(d)
		decls = append(decls, n.sb.String())
	}
	return f.Name.Name, imps, decls
}
