// Package jh holds small helpers shared by the checks: rendering jennifer values with panics
// captured, scanning and parsing the output with the standard library (the independent oracles).
package jh

import (
	"bytes"
	"fmt"
	"go/ast"
	"go/parser"
	"go/scanner"
	"go/token"
	"io"
	"strings"

	"github.com/dave/jennifer/jen"
)

// Outcome of one render.
type Outcome struct {
	Out   string
	Err   error
	Panic any
}

func (o Outcome) String() string {
	switch {
	case o.Panic != nil:
		return fmt.Sprintf("PANIC: %v", o.Panic)
	case o.Err != nil:
		return "ERROR: " + o.Err.Error()
	}
	return o.Out
}

// OK reports a render that neither failed nor panicked.
func (o Outcome) OK() bool { return o.Err == nil && o.Panic == nil }

// Key is a compact comparison key: output text, or the kind of failure.
func (o Outcome) Key() string {
	switch {
	case o.Panic != nil:
		return fmt.Sprintf("PANIC: %v", o.Panic)
	case o.Err != nil:
		return "ERROR"
	}
	return "OK:" + o.Out
}

// Catch runs fn and captures a panic.
func Catch(fn func() (string, error)) (o Outcome) {
	defer func() {
		if r := recover(); r != nil {
			o = Outcome{Panic: r}
		}
	}()
	s, err := fn()
	return Outcome{Out: s, Err: err}
}

// CatchOutcome runs a function that builds jennifer code and renders it; a panic while building is
// reported as a panicking Outcome.
func CatchOutcome(fn func() Outcome) (o Outcome) {
	defer func() {
		if r := recover(); r != nil {
			o = Outcome{Panic: r}
		}
	}()
	return fn()
}

// RenderFile renders f into a string.
func RenderFile(f *jen.File) Outcome {
	return Catch(func() (string, error) {
		var b bytes.Buffer
		err := f.Render(&b)
		return b.String(), err
	})
}

const rawHeader = "package p\n\n"

// Raw renders code as the only item of a fresh File named p with NoFormat set, and returns the
// text after the package clause (import block included, if any; the leading newline that the
// multi-line file group writes before its first item is removed).
func Raw(code ...jen.Code) Outcome {
	return Catch(func() (string, error) {
		f := jen.NewFile("p")
		f.NoFormat = true
		f.Add(code...)
		var b bytes.Buffer
		if err := f.Render(&b); err != nil {
			return "", err
		}
		s := b.String()
		if !strings.HasPrefix(s, rawHeader) {
			return s, fmt.Errorf("harness: unexpected file header %q", s)
		}
		return strings.TrimPrefix(strings.TrimPrefix(s, rawHeader), "\n"), nil
	})
}

// RawItems renders each code as one item of the file body (one per line).
func RawItems(codes ...jen.Code) Outcome {
	return Catch(func() (string, error) {
		f := jen.NewFile("p")
		f.NoFormat = true
		for _, c := range codes {
			f.Add(c)
		}
		var b bytes.Buffer
		if err := f.Render(&b); err != nil {
			return "", err
		}
		return strings.TrimPrefix(b.String(), rawHeader), nil
	})
}

// Stmt renders with Statement/Group Render (formatted fragment).
func Stmt(c interface{ Render(w io.Writer) error }) Outcome {
	return Catch(func() (string, error) {
		var b bytes.Buffer
		err := c.Render(&b)
		return b.String(), err
	})
}

// Tok is one scanned token.
type Tok struct {
	Tok token.Token
	Lit string
}

func (t Tok) String() string {
	if t.Lit != "" {
		return t.Tok.String() + "(" + t.Lit + ")"
	}
	return t.Tok.String()
}

// Scan tokenizes src with go/scanner. Comments are returned separately; semicolons are dropped
// when dropSemi is set. nerr is the scanner's error count.
func Scan(src string, dropSemi bool) (toks []Tok, comments []string, nerr int) {
	fset := token.NewFileSet()
	file := fset.AddFile("", fset.Base(), len(src))
	var s scanner.Scanner
	s.Init(file, []byte(src), func(token.Position, string) { nerr++ }, scanner.ScanComments)
	for {
		_, tok, lit := s.Scan()
		if tok == token.EOF {
			break
		}
		if tok == token.COMMENT {
			comments = append(comments, lit)
			continue
		}
		if tok == token.SEMICOLON && dropSemi {
			continue
		}
		if tok == token.SEMICOLON {
			lit = ""
		}
		if !tok.IsLiteral() && tok != token.ILLEGAL {
			lit = ""
		}
		toks = append(toks, Tok{tok, lit})
	}
	return toks, comments, nerr
}

// TokString joins tokens for messages and comparison.
func TokString(toks []Tok) string {
	var sb strings.Builder
	for i, t := range toks {
		if i > 0 {
			sb.WriteByte(' ')
		}
		sb.WriteString(t.String())
	}
	return sb.String()
}

// ParseFile parses src as a Go file.
func ParseFile(src string) (*ast.File, *token.FileSet, error) {
	fset := token.NewFileSet()
	f, err := parser.ParseFile(fset, "out.go", src, parser.ParseComments|parser.SkipObjectResolution)
	return f, fset, err
}

// ParsesAsFragment reports whether src parses as declarations or as statements.
func ParsesAsFragment(src string) bool {
	fset := token.NewFileSet()
	if _, err := parser.ParseFile(fset, "", "package p\n"+src+"\n", parser.SkipObjectResolution); err == nil {
		return true
	}
	fset = token.NewFileSet()
	_, err := parser.ParseFile(fset, "", "package p\nfunc _() {\n"+src+"\n}\n", parser.SkipObjectResolution)
	return err == nil
}

// Short truncates s for messages.
func Short(s string, n int) string {
	if len(s) <= n {
		return s
	}
	return s[:n] + "…"
}
