// Package explore is engine E1: a stateless, deviation-bounded depth-first explorer over the
// choice points of a generator program, plus helpers to enumerate plain finite domains in
// parallel. A generator is ordinary Go code that calls c.Choose(n) wherever the case it builds
// could have been built differently; alternative 0 is the default ("simplest") answer. One run
// is a pure function of its choice vector. The explorer runs the empty vector, and then, for
// every choice point after the forced prefix and every non-default alternative there, the vector
// "recorded choices up to that point + the alternative" - recursively - as long as the number
// (cost) of non-default choices stays within the bound. Every vector within the bound is
// executed exactly once.
package explore

import (
	"fmt"
	"os"
	"runtime"
	"runtime/debug"
	"sync"
	"sync/atomic"
)

// Ctx is handed to the generator for one execution.
type Ctx struct {
	prefix  []int
	choices []int
	arity   []int
	cost    []int
	// Devs is the cost of the forced prefix (number of deviations taken so far by construction).
	Devs int
	// Worker is the index of the worker goroutine running this execution.
	Worker int
}

// Choose returns a value in [0,n). 0 is the default; any other value costs one deviation.
func (c *Ctx) Choose(n int) int { return c.ChooseCost(n, 1) }

// ChooseCost is Choose where taking a non-default alternative costs `cost` deviations
// (0 = free: all alternatives are always explored).
func (c *Ctx) ChooseCost(n, cost int) int {
	if n <= 0 {
		panic("explore: Choose with n <= 0")
	}
	i := len(c.choices)
	v := 0
	if i < len(c.prefix) {
		v = c.prefix[i]
		if v >= n {
			panic(divergence(fmt.Sprintf("explore: replay divergence at point %d: forced %d, arity %d", i, v, n)))
		}
	}
	c.choices = append(c.choices, v)
	c.arity = append(c.arity, n)
	c.cost = append(c.cost, cost)
	return v
}

// Bool is Choose(2) == 1.
func (c *Ctx) Bool() bool { return c.Choose(2) == 1 }

// Vector returns the choices made so far (a copy).
func (c *Ctx) Vector() []int { return append([]int(nil), c.choices...) }

// Points returns the number of choice points met so far.
func (c *Ctx) Points() int { return len(c.choices) }

// NewReplay makes a context that replays the given vector (and answers 0 afterwards).
func NewReplay(vec []int) *Ctx { return &Ctx{prefix: vec} }

// Options bound an exploration.
type Options struct {
	MaxDev  int         // maximal total cost of non-default choices; < 0 = unbounded (tree must be finite)
	Workers int         // goroutines; 0 = GOMAXPROCS
	Stop    func() bool // polled between executions; true = stop early (not exhaustive)
	MaxExec int64       // safety cap on executions; 0 = none
	// OnDivergence, if set, is called instead of aborting when replaying a forced prefix meets a
	// choice point of smaller arity than recorded: the program under test did not behave as a
	// function of its choice vector. That execution is abandoned.
	OnDivergence func(vector []int, msg string)
}

// Stats describe what was explored.
type Stats struct {
	Executions int64
	PerLevel   []int64 // executions with exactly d deviations
	MaxPoints  int
	Complete   bool // false if Stop or MaxExec ended the run early
}

type item struct {
	prefix []int
	devs   int
}

// Explore runs gen for every choice vector within the bound.
func Explore(opts Options, gen func(c *Ctx)) Stats {
	workers := opts.Workers
	if workers <= 0 {
		workers = runtime.GOMAXPROCS(0)
	}
	var (
		mu      sync.Mutex
		cond    = sync.NewCond(&mu)
		stack   = []item{{}}
		busy    int
		stopped atomic.Bool
		execs   atomic.Int64
		stats   Stats
	)
	stats.Complete = true
	perLevel := make([][]int64, workers)
	maxPts := make([]int, workers)
	var wg sync.WaitGroup
	for w := 0; w < workers; w++ {
		wg.Add(1)
		go func(w int) {
			defer wg.Done()
			for {
				mu.Lock()
				for len(stack) == 0 && busy > 0 {
					cond.Wait()
				}
				if len(stack) == 0 {
					mu.Unlock()
					cond.Broadcast()
					return
				}
				it := stack[len(stack)-1]
				stack = stack[:len(stack)-1]
				busy++
				mu.Unlock()

				if !stopped.Load() {
					if (opts.Stop != nil && opts.Stop()) || (opts.MaxExec > 0 && execs.Load() >= opts.MaxExec) {
						stopped.Store(true)
					}
				}
				var next []item
				if !stopped.Load() {
					c := &Ctx{prefix: it.prefix, Devs: it.devs, Worker: w}
					if !runGen(gen, c, opts.OnDivergence) {
						mu.Lock()
						busy--
						mu.Unlock()
						cond.Broadcast()
						continue
					}
					execs.Add(1)
					for len(perLevel[w]) <= it.devs {
						perLevel[w] = append(perLevel[w], 0)
					}
					perLevel[w][it.devs]++
					if len(c.choices) > maxPts[w] {
						maxPts[w] = len(c.choices)
					}
					// push in reverse so that the simplest alternatives are explored first
					for i := len(c.choices) - 1; i >= len(it.prefix); i-- {
						if c.arity[i] < 2 {
							continue
						}
						nd := it.devs + c.cost[i]
						if opts.MaxDev >= 0 && nd > opts.MaxDev {
							continue
						}
						for alt := c.arity[i] - 1; alt >= 1; alt-- {
							np := make([]int, i+1)
							copy(np, c.choices[:i])
							np[i] = alt
							next = append(next, item{np, nd})
						}
					}
				}
				mu.Lock()
				stack = append(stack, next...)
				busy--
				mu.Unlock()
				cond.Broadcast()
			}
		}(w)
	}
	wg.Wait()
	stats.Executions = execs.Load()
	for w := range perLevel {
		for d, n := range perLevel[w] {
			for len(stats.PerLevel) <= d {
				stats.PerLevel = append(stats.PerLevel, 0)
			}
			stats.PerLevel[d] += n
		}
		if maxPts[w] > stats.MaxPoints {
			stats.MaxPoints = maxPts[w]
		}
	}
	if stopped.Load() {
		stats.Complete = false
	}
	return stats
}

type divergence string

// PanicHook, if set, is offered every panic that escapes a generator or a Range body, with a
// description of the case and the stack of the panicking goroutine. If it returns true the panic
// has been dealt with (the execution is abandoned and exploration goes on); otherwise the process
// ends as a harness failure.
var PanicHook func(where string, r any, stack []byte) bool

func runGen(gen func(c *Ctx), c *Ctx, onDiv func([]int, string)) (ok bool) {
	ok = true
	defer func() {
		if r := recover(); r != nil {
			if d, isDiv := r.(divergence); isDiv && onDiv != nil {
				onDiv(append([]int(nil), c.prefix...), string(d))
				ok = false
				return
			}
			// a panic escaping a generator is a harness defect (jennifer panics are caught and
			// judged inside the generators) unless the hook recognises it as raised inside jennifer
			stack := debug.Stack()
			if PanicHook != nil && PanicHook(fmt.Sprintf("choice vector %v", c.choices), r, stack) {
				ok = false
				return
			}
			fmt.Fprintf(os.Stderr, "HARNESS FAILURE: panic in generator with choice vector %v: %v\n%s\n", c.choices, r, stack)
			os.Exit(2)
		}
	}()
	gen(c)
	return ok
}

// Range calls fn(i) for every i in [0,n), spread over workers in contiguous chunks; fn must be
// safe for concurrent use. stop is polled per chunk. It reports whether the whole range was done.
func Range(n int64, workers int, stop func() bool, fn func(worker int, i int64)) bool {
	if workers <= 0 {
		workers = runtime.GOMAXPROCS(0)
	}
	chunk := n / int64(workers*64)
	if chunk < 1 {
		chunk = 1
	}
	if chunk > 1<<16 {
		chunk = 1 << 16
	}
	var next atomic.Int64
	var stopped atomic.Bool
	var wg sync.WaitGroup
	for w := 0; w < workers; w++ {
		wg.Add(1)
		go func(w int) {
			defer wg.Done()
			for {
				lo := next.Add(chunk) - chunk
				if lo >= n {
					return
				}
				if stopped.Load() || (stop != nil && stop()) {
					stopped.Store(true)
					return
				}
				hi := lo + chunk
				if hi > n {
					hi = n
				}
				for i := lo; i < hi; i++ {
					rangeBody(fn, w, i)
				}
			}
		}(w)
	}
	wg.Wait()
	return !stopped.Load()
}

func rangeBody(fn func(worker int, i int64), w int, i int64) {
	defer func() {
		if r := recover(); r != nil {
			stack := debug.Stack()
			if PanicHook != nil && PanicHook(fmt.Sprintf("case %d of an enumerated range", i), r, stack) {
				return
			}
			fmt.Fprintf(os.Stderr, "HARNESS FAILURE: panic in case %d of an enumerated range: %v\n%s\n", i, r, stack)
			os.Exit(2)
		}
	}()
	fn(w, i)
}

// Perms returns all permutations of 0..n-1 with the identity first.
func Perms(n int) [][]int {
	var out [][]int
	p := make([]int, n)
	used := make([]bool, n)
	var rec func(i int)
	rec = func(i int) {
		if i == n {
			out = append(out, append([]int(nil), p...))
			return
		}
		for v := 0; v < n; v++ {
			if !used[v] {
				used[v] = true
				p[i] = v
				rec(i + 1)
				used[v] = false
			}
		}
	}
	rec(0)
	return out
}
