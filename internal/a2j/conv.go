package a2j

import (
	"fmt"
	"go/ast"
	"go/constant"
	"go/token"
	"math"
	"reflect"
	"strconv"
	"strings"
	"verif/internal/norm"

	. "github.com/dave/jennifer/jen"
)

// Conv translates one go/ast file into jennifer DSL calls, using for each construct the DSL
// element the README documents for it.
type Conv struct {
	pkgs map[string]string // local package name -> import path (non-dot, non-blank)
	// Skip is the reason this file cannot be translated syntactically ("" = translated).
	Skip  string
	Hooks Hooks
	// Sites counts the list-construct sites built.
	Sites  int
	bases  map[string]*Statement
	cursor interface{}
}

// selectorChain returns the dotted text of a pure chain of identifiers, "" for anything else.
func selectorChain(e ast.Expr) string {
	switch e := e.(type) {
	case *ast.Ident:
		return e.Name
	case *ast.SelectorExpr:
		if x := selectorChain(e.X); x != "" {
			return x + "." + e.Sel.Name
		}
	}
	return ""
}

// Hooks let a check vary how list constructs are built; all default to the plain variadic form.
type Hooks struct {
	// Items may change the items of a list construct (e.g. inject null items). name is the
	// jennifer method name ("Call", "Block", ...); site numbers the construction sites.
	Items func(site int, name string, items []Code) []Code
	// UseFunc chooses the ...Func variant (callback adding the items) for this site.
	UseFunc func(site int, name string) bool
	// CloneShared builds every pure selector chain (a.b.c) once per file and hands out a Clone()
	// of it at each use, the way hand-written generators keep common prefixes.
	CloneShared bool
	// EarlyAdd adds every top-level declaration's (still empty) statement to the File first and
	// completes it afterwards through the retained pointer - the DSL holds statements by reference.
	EarlyAdd bool
	// LitViaFunc builds every literal through LitFunc / LitRuneFunc with a callback that reads a
	// cursor the translator keeps overwriting - the generator-loop idiom; the callbacks are
	// documented to run once, inside the constructing call.
	LitViaFunc bool
	// NamesTable states the real package names through ONE ImportNames table (instead of one
	// ImportName call per import) and then overwrites the table, as a caller that reuses its map does.
	NamesTable bool
	// NoFormat sets File.NoFormat: the re-parsed tree must be the same without gofmt in between.
	NoFormat bool
}

// grp builds one list construct on s.
func (c *Conv) grp(s *Statement, name string, items ...Code) *Statement {
	site := c.Sites
	c.Sites++
	if c.Hooks.Items != nil {
		items = c.Hooks.Items(site, name, items)
	}
	if items == nil {
		items = []Code{}
	}
	rv := reflect.ValueOf(s)
	if c.Hooks.UseFunc != nil && c.Hooks.UseFunc(site, name) {
		if m := rv.MethodByName(name + "Func"); m.IsValid() {
			its := items
			m.Call([]reflect.Value{reflect.ValueOf(func(g *Group) {
				for _, it := range its {
					g.Add(it)
				}
			})})
			return s
		}
	}
	rv.MethodByName(name).CallSlice([]reflect.Value{reflect.ValueOf(items)})
	return s
}

func newSt() *Statement { return &Statement{} }

var predeclared = map[string]func() *Statement{
	"bool": Bool, "byte": Byte, "complex64": Complex64, "complex128": Complex128, "error": Error,
	"float32": Float32, "float64": Float64, "int": Int, "int8": Int8, "int16": Int16, "int32": Int32,
	"int64": Int64, "rune": Rune, "string": String, "uint": Uint, "uint8": Uint8, "uint16": Uint16,
	"uint32": Uint32, "uint64": Uint64, "uintptr": Uintptr, "true": True, "false": False, "iota": Iota,
	"nil": Nil, "err": Err, "any": Any, "comparable": Comparable,
}

// builtinCalls: built-in functions that have an element of their own in the DSL.
var builtinCalls = map[string]string{"append": "Append", "cap": "Cap", "clear": "Clear", "close": "Close", "complex": "Complex", "copy": "Copy", "delete": "Delete", "imag": "Imag",
	"len": "Len", "make": "Make", "max": "Max", "min": "Min", "new": "New", "panic": "Panic", "print": "Print", "println": "Println", "real": "Real", "recover": "Recover"}

func (c *Conv) ident(id *ast.Ident) *Statement {
	if f, ok := predeclared[id.Name]; ok {
		return f()
	}
	return Id(id.Name)
}

func (c *Conv) exprs(es []ast.Expr) []Code {
	out := make([]Code, 0, len(es))
	for _, e := range es {
		out = append(out, c.expr(e))
	}
	return out
}

func (c *Conv) listOrOne(es []ast.Expr) *Statement {
	if len(es) == 1 {
		return c.expr(es[0])
	}
	return c.grp(newSt(), "List", c.exprs(es)...)
}

// litValue builds the literal for v: directly, or (LitViaFunc) through a callback reading a
// cursor that has moved on by the time the file is rendered.
func (c *Conv) litValue(v interface{}) *Statement {
	if !c.Hooks.LitViaFunc {
		if r, ok := v.(rune); ok {
			return LitRune(r)
		}
		return Lit(v)
	}
	c.cursor = v
	var s *Statement
	if _, ok := v.(rune); ok {
		s = LitRuneFunc(func() rune {
			if r, ok := c.cursor.(rune); ok {
				return r
			}
			return 0x2620
		})
	} else {
		s = LitFunc(func() interface{} { return c.cursor })
	}
	c.cursor = "cursor moved on"
	return s
}

func (c *Conv) lit(l *ast.BasicLit) *Statement {
	switch l.Kind {
	case token.INT:
		v := constant.MakeFromLiteral(l.Value, token.INT, 0)
		if i, ok := constant.Int64Val(v); ok {
			return c.litValue(int(i))
		}
		return Op(l.Value)
	case token.FLOAT:
		// Lit(float64) prints the shortest decimal that reads back as the same float64; use it
		// only when that decimal is the very constant the source wrote (untyped constants are
		// exact), otherwise keep the literal's spelling.
		v := constant.MakeFromLiteral(l.Value, token.FLOAT, 0)
		f, _ := constant.Float64Val(v)
		if !math.IsInf(f, 0) && !math.IsNaN(f) {
			short := constant.MakeFromLiteral(strconv.FormatFloat(f, 'g', -1, 64), token.FLOAT, 0)
			if short.Kind() != constant.Unknown && constant.Compare(short, token.EQL, v) {
				return c.litValue(f)
			}
		}
		return Op(l.Value)
	case token.IMAG:
		return Op(l.Value)
	case token.CHAR:
		s, err := strconv.Unquote(l.Value)
		if err != nil {
			return Op(l.Value)
		}
		r := []rune(s)
		if len(r) != 1 || r[0] == 0xFFFD && !strings.Contains(l.Value, "\\uFFFD") && !strings.Contains(l.Value, "\\ufffd") && !strings.Contains(l.Value, "�") {
			return Op(l.Value) // e.g. '\xff' is not a valid code point as rune->string round trip
		}
		return c.litValue(r[0])
	case token.STRING:
		s, err := strconv.Unquote(l.Value)
		if err != nil {
			return Op(l.Value)
		}
		return c.litValue(s)
	}
	return Op(l.Value)
}

func (c *Conv) expr(e ast.Expr) *Statement {
	switch e := e.(type) {
	case nil:
		return Null()
	case *ast.BadExpr:
		c.Skip = "BadExpr"
		return Null()
	case *ast.Ident:
		return c.ident(e)
	case *ast.BasicLit:
		return c.lit(e)
	case *ast.ParenExpr:
		return Parens(c.expr(e.X))
	case *ast.SelectorExpr:
		if key := selectorChain(e); key != "" && c.Hooks.CloneShared {
			if c.bases == nil {
				c.bases = map[string]*Statement{}
			}
			base, ok := c.bases[key]
			if !ok {
				shared := c.Hooks.CloneShared
				c.Hooks.CloneShared = false
				base = c.expr(e)
				c.Hooks.CloneShared = shared
				c.bases[key] = base
			}
			return base.Clone()
		}
		if id, ok := e.X.(*ast.Ident); ok && id.Obj == nil {
			if path, ok := c.pkgs[id.Name]; ok {
				return Qual(path, e.Sel.Name)
			}
		}
		return c.expr(e.X).Dot(e.Sel.Name)
	case *ast.StarExpr:
		return Op("*").Add(c.expr(e.X))
	case *ast.UnaryExpr:
		return Op(e.Op.String()).Add(c.expr(e.X))
	case *ast.BinaryExpr:
		return c.expr(e.X).Op(e.Op.String()).Add(c.expr(e.Y))
	case *ast.CallExpr:
		args := c.exprs(e.Args)
		if e.Ellipsis.IsValid() && len(args) > 0 {
			args[len(args)-1] = args[len(args)-1].(*Statement).Op("...")
		}
		// a call of a built-in function is built with the DSL's element for that built-in
		if id, ok := e.Fun.(*ast.Ident); ok {
			if name, ok := builtinCalls[id.Name]; ok {
				st := newSt()
				m := reflect.ValueOf(st).MethodByName(name)
				switch {
				case !m.IsValid():
				case m.Type().IsVariadic():
					return c.grp(st, name, args...)
				case m.Type().NumIn() == len(args):
					in := make([]reflect.Value, len(args))
					for i, a := range args {
						in[i] = reflect.ValueOf(a)
					}
					m.Call(in)
					c.Sites++
					return st
				}
			}
		}
		return c.grp(c.expr(e.Fun), "Call", args...)
	case *ast.IndexExpr:
		return c.grp(c.expr(e.X), "Index", c.expr(e.Index))
	case *ast.IndexListExpr:
		return c.grp(c.expr(e.X), "Types", c.exprs(e.Indices)...)
	case *ast.SliceExpr:
		part := func(x ast.Expr) Code {
			if x == nil {
				return Empty()
			}
			return c.expr(x)
		}
		if e.Slice3 {
			return c.grp(c.expr(e.X), "Index", part(e.Low), part(e.High), part(e.Max))
		}
		return c.grp(c.expr(e.X), "Index", part(e.Low), part(e.High))
	case *ast.TypeAssertExpr:
		if e.Type == nil {
			return c.expr(e.X).Assert(Type())
		}
		return c.expr(e.X).Assert(c.expr(e.Type))
	case *ast.FuncLit:
		return c.grp(c.funcType(Func(), e.Type), "Block", c.stmts(e.Body.List)...)
	case *ast.CompositeLit:
		var s *Statement
		if e.Type != nil {
			s = c.expr(e.Type)
		} else {
			s = &Statement{}
		}
		allKV := len(e.Elts) > 0
		for _, el := range e.Elts {
			if _, ok := el.(*ast.KeyValueExpr); !ok {
				allKV = false
			}
		}
		if allKV && norm.SimpleKeys(e.Elts) {
			// keys that are plain literals or identifiers: Dict writes its pairs in the order of the
			// keys' text, so it is the element for this literal exactly when the source has that
			// order (then the order must survive); otherwise the pairs are written out one by one
			var texts []string
			for _, el := range e.Elts {
				texts = append(texts, fmt.Sprintf("%#v", c.expr(el.(*ast.KeyValueExpr).Key)))
			}
			for i := 1; i < len(texts); i++ {
				if texts[i-1] >= texts[i] {
					allKV = false
				}
			}
		}
		if allKV {
			d := Dict{}
			for _, el := range e.Elts {
				kv := el.(*ast.KeyValueExpr)
				d[c.expr(kv.Key)] = c.expr(kv.Value)
			}
			return s.Values(d)
		}
		return c.grp(s, "Values", c.exprs(e.Elts)...)
	case *ast.KeyValueExpr:
		return c.expr(e.Key).Op(":").Add(c.expr(e.Value))
	case *ast.Ellipsis:
		if e.Elt == nil {
			return Op("...")
		}
		return Op("...").Add(c.expr(e.Elt))
	case *ast.ArrayType:
		if e.Len == nil {
			return c.grp(newSt(), "Index").Add(c.expr(e.Elt))
		}
		return c.grp(newSt(), "Index", c.expr(e.Len)).Add(c.expr(e.Elt))
	case *ast.MapType:
		return Map(c.expr(e.Key)).Add(c.expr(e.Value))
	case *ast.ChanType:
		switch e.Dir {
		case ast.SEND:
			return Chan().Op("<-").Add(c.expr(e.Value))
		case ast.RECV:
			return Op("<-").Chan().Add(c.expr(e.Value))
		}
		return Chan().Add(c.expr(e.Value))
	case *ast.FuncType:
		return c.funcType(Func(), e)
	case *ast.StructType:
		var fields []Code
		for _, f := range e.Fields.List {
			var s *Statement
			switch len(f.Names) {
			case 0:
				s = c.expr(f.Type)
			case 1:
				s = c.ident(f.Names[0]).Add(c.expr(f.Type))
			default:
				var ns []Code
				for _, n := range f.Names {
					ns = append(ns, c.ident(n))
				}
				s = c.grp(newSt(), "List", ns...).Add(c.expr(f.Type))
			}
			if f.Tag != nil {
				s.Add(c.tag(f.Tag))
			}
			fields = append(fields, s)
		}
		return c.grp(newSt(), "Struct", fields...)
	case *ast.InterfaceType:
		var ms []Code
		for _, f := range e.Methods.List {
			if len(f.Names) == 1 {
				ft, ok := f.Type.(*ast.FuncType)
				if ok {
					ms = append(ms, c.funcType(c.ident(f.Names[0]), ft))
					continue
				}
			}
			ms = append(ms, c.constraint(f.Type))
		}
		return c.grp(newSt(), "Interface", ms...)
	}
	c.Skip = fmt.Sprintf("unhandled expr %T", e)
	return Null()
}

// constraint renders a type-set element, using Union for a|b|c.
func (c *Conv) constraint(e ast.Expr) *Statement {
	var terms []ast.Expr
	var flat func(e ast.Expr)
	flat = func(e ast.Expr) {
		if b, ok := e.(*ast.BinaryExpr); ok && b.Op == token.OR {
			flat(b.X)
			terms = append(terms, b.Y)
			return
		}
		terms = append(terms, e)
	}
	flat(e)
	if len(terms) == 1 {
		return c.expr(e)
	}
	return c.grp(newSt(), "Union", c.exprs(terms)...)
}

func (c *Conv) tag(l *ast.BasicLit) Code {
	s, err := strconv.Unquote(l.Value)
	if err != nil {
		return Op(l.Value)
	}
	// conventional tags go through Tag when they round-trip, else a string literal
	m := map[string]string{}
	rest := s
	ok := true
	for rest != "" {
		i := 0
		for i < len(rest) && rest[i] == ' ' {
			i++
		}
		rest = rest[i:]
		if rest == "" {
			break
		}
		i = 0
		for i < len(rest) && rest[i] > ' ' && rest[i] != ':' && rest[i] != '"' && rest[i] != 0x7f {
			i++
		}
		if i == 0 || i+1 >= len(rest) || rest[i] != ':' || rest[i+1] != '"' {
			ok = false
			break
		}
		name := rest[:i]
		rest = rest[i+1:]
		i = 1
		for i < len(rest) && rest[i] != '"' {
			if rest[i] == '\\' {
				i++
			}
			i++
		}
		if i >= len(rest) {
			ok = false
			break
		}
		q := rest[:i+1]
		rest = rest[i+1:]
		v, err := strconv.Unquote(q)
		if err != nil {
			ok = false
			break
		}
		if _, dup := m[name]; dup {
			ok = false
			break
		}
		m[name] = v
	}
	if ok && len(m) > 0 {
		return Tag(m)
	}
	return Lit(s)
}

// fieldList renders parameter-like lists: each name is its own item, the type follows the last name.
func (c *Conv) fieldList(fl *ast.FieldList) []Code {
	var out []Code
	if fl == nil {
		return out
	}
	for _, f := range fl.List {
		if len(f.Names) == 0 {
			out = append(out, c.paramType(f.Type))
			continue
		}
		for i, n := range f.Names {
			if i < len(f.Names)-1 {
				out = append(out, c.ident(n))
			} else {
				out = append(out, c.ident(n).Add(c.paramType(f.Type)))
			}
		}
	}
	return out
}

func (c *Conv) paramType(e ast.Expr) *Statement {
	return c.constraintOrExpr(e)
}

func (c *Conv) constraintOrExpr(e ast.Expr) *Statement {
	return c.expr(e)
}

func (c *Conv) typeParams(fl *ast.FieldList) []Code {
	var out []Code
	for _, f := range fl.List {
		for i, n := range f.Names {
			if i < len(f.Names)-1 {
				out = append(out, c.ident(n))
			} else {
				out = append(out, c.ident(n).Add(c.constraint(f.Type)))
			}
		}
	}
	return out
}

func (c *Conv) funcType(s *Statement, ft *ast.FuncType) *Statement {
	if ft.TypeParams != nil {
		c.grp(s, "Types", c.typeParams(ft.TypeParams)...)
	}
	c.grp(s, "Params", c.fieldList(ft.Params)...)
	if ft.Results != nil {
		if len(ft.Results.List) == 1 && len(ft.Results.List[0].Names) == 0 && ft.Results.Opening == token.NoPos {
			s.Add(c.expr(ft.Results.List[0].Type))
		} else {
			c.grp(s, "Params", c.fieldList(ft.Results)...)
		}
	}
	return s
}

func (c *Conv) stmts(ss []ast.Stmt) []Code {
	var out []Code
	for _, s := range ss {
		if _, ok := s.(*ast.EmptyStmt); ok {
			continue
		}
		out = append(out, c.stmt(s))
	}
	return out
}

func (c *Conv) simple(s ast.Stmt) Code {
	if s == nil {
		return Empty()
	}
	return c.stmt(s)
}

func (c *Conv) stmt(s ast.Stmt) *Statement {
	switch s := s.(type) {
	case *ast.BadStmt:
		c.Skip = "BadStmt"
		return Null()
	case *ast.EmptyStmt:
		return Null()
	case *ast.ExprStmt:
		return c.expr(s.X)
	case *ast.SendStmt:
		return c.expr(s.Chan).Op("<-").Add(c.expr(s.Value))
	case *ast.IncDecStmt:
		return c.expr(s.X).Op(s.Tok.String())
	case *ast.AssignStmt:
		return c.listOrOne(s.Lhs).Op(s.Tok.String()).Add(c.listOrOne(s.Rhs))
	case *ast.GoStmt:
		return Go().Add(c.expr(s.Call))
	case *ast.DeferStmt:
		return Defer().Add(c.expr(s.Call))
	case *ast.ReturnStmt:
		return c.grp(newSt(), "Return", c.exprs(s.Results)...)
	case *ast.BranchStmt:
		var st *Statement
		switch s.Tok {
		case token.BREAK:
			st = Break()
		case token.CONTINUE:
			st = Continue()
		case token.GOTO:
			st = Goto()
		case token.FALLTHROUGH:
			st = Fallthrough()
		}
		if s.Label != nil {
			st.Id(s.Label.Name)
		}
		return st
	case *ast.BlockStmt:
		return c.grp(newSt(), "Block", c.stmts(s.List)...)
	case *ast.IfStmt:
		var conds []Code
		if s.Init != nil {
			conds = append(conds, c.stmt(s.Init))
		}
		conds = append(conds, c.expr(s.Cond))
		st := c.grp(c.grp(newSt(), "If", conds...), "Block", c.stmts(s.Body.List)...)
		switch e := s.Else.(type) {
		case nil:
		case *ast.BlockStmt:
			c.grp(st.Else(), "Block", c.stmts(e.List)...)
		default:
			st.Else().Add(c.stmt(e))
		}
		return st
	case *ast.SwitchStmt:
		var conds []Code
		if s.Init != nil {
			conds = append(conds, c.stmt(s.Init))
			if s.Tag != nil {
				conds = append(conds, c.expr(s.Tag))
			} else {
				conds = append(conds, Empty())
			}
		} else if s.Tag != nil {
			conds = append(conds, c.expr(s.Tag))
		}
		return c.grp(c.grp(newSt(), "Switch", conds...), "Block", c.clauses(s.Body.List)...)
	case *ast.TypeSwitchStmt:
		var conds []Code
		if s.Init != nil {
			conds = append(conds, c.stmt(s.Init))
		}
		conds = append(conds, c.stmt(s.Assign))
		return c.grp(c.grp(newSt(), "Switch", conds...), "Block", c.clauses(s.Body.List)...)
	case *ast.SelectStmt:
		return c.grp(Select(), "Block", c.clauses(s.Body.List)...)
	case *ast.ForStmt:
		if s.Init == nil && s.Post == nil {
			if s.Cond == nil {
				return c.grp(c.grp(newSt(), "For"), "Block", c.stmts(s.Body.List)...)
			}
			return c.grp(c.grp(newSt(), "For", c.expr(s.Cond)), "Block", c.stmts(s.Body.List)...)
		}
		var cond Code = Empty()
		if s.Cond != nil {
			cond = c.expr(s.Cond)
		}
		return c.grp(c.grp(newSt(), "For", c.simple(s.Init), cond, c.simple(s.Post)), "Block", c.stmts(s.Body.List)...)
	case *ast.RangeStmt:
		var hdr *Statement
		if s.Key == nil && s.Value == nil {
			hdr = Range().Add(c.expr(s.X))
		} else {
			var lhs []ast.Expr
			lhs = append(lhs, s.Key)
			if s.Value != nil {
				lhs = append(lhs, s.Value)
			}
			hdr = c.listOrOne(lhs).Op(s.Tok.String()).Range().Add(c.expr(s.X))
		}
		return c.grp(c.grp(newSt(), "For", hdr), "Block", c.stmts(s.Body.List)...)
	case *ast.LabeledStmt:
		st := Id(s.Label.Name).Op(":")
		if es, ok := s.Stmt.(*ast.EmptyStmt); ok {
			if !es.Implicit {
				st.Op(";") // `L: ;` - an explicit empty statement keeps the label from attaching to what follows
			}
			return st
		}
		return st.Add(c.stmt(s.Stmt))
	case *ast.DeclStmt:
		return c.genDecl(s.Decl.(*ast.GenDecl))
	}
	c.Skip = fmt.Sprintf("unhandled stmt %T", s)
	return Null()
}

func (c *Conv) clauses(ss []ast.Stmt) []Code {
	var out []Code
	for _, s := range ss {
		switch s := s.(type) {
		case *ast.CaseClause:
			if s.List == nil {
				out = append(out, c.grp(Default(), "Block", c.stmts(s.Body)...))
			} else {
				out = append(out, c.grp(c.grp(newSt(), "Case", c.exprs(s.List)...), "Block", c.stmts(s.Body)...))
			}
		case *ast.CommClause:
			if s.Comm == nil {
				out = append(out, c.grp(Default(), "Block", c.stmts(s.Body)...))
			} else {
				out = append(out, c.grp(c.grp(newSt(), "Case", c.stmt(s.Comm)), "Block", c.stmts(s.Body)...))
			}
		default:
			c.Skip = fmt.Sprintf("unexpected clause %T", s)
		}
	}
	return out
}

func (c *Conv) spec(sp ast.Spec) *Statement {
	switch sp := sp.(type) {
	case *ast.ValueSpec:
		var ns []ast.Expr
		for _, n := range sp.Names {
			ns = append(ns, n)
		}
		st := c.listOrOne(ns)
		if sp.Type != nil {
			st.Add(c.expr(sp.Type))
		}
		if len(sp.Values) > 0 {
			st.Op("=").Add(c.listOrOne(sp.Values))
		}
		return st
	case *ast.TypeSpec:
		st := c.ident(sp.Name)
		if sp.TypeParams != nil {
			c.grp(st, "Types", c.typeParams(sp.TypeParams)...)
		}
		if sp.Assign.IsValid() {
			st.Op("=")
		}
		return st.Add(c.expr(sp.Type))
	}
	c.Skip = fmt.Sprintf("unhandled spec %T", sp)
	return Null()
}

func (c *Conv) genDecl(d *ast.GenDecl) *Statement { return c.genDeclOn(newSt(), d) }

// genDeclOn builds the declaration on an existing (possibly already added) statement.
func (c *Conv) genDeclOn(kw *Statement, d *ast.GenDecl) *Statement {
	switch d.Tok {
	case token.VAR:
		kw.Var()
	case token.CONST:
		kw.Const()
	case token.TYPE:
		kw.Type()
	default:
		c.Skip = "unexpected gendecl " + d.Tok.String()
		return Null()
	}
	if d.Lparen.IsValid() {
		var specs []Code
		for _, sp := range d.Specs {
			specs = append(specs, c.spec(sp))
		}
		return c.grp(kw, "Defs", specs...)
	}
	return kw.Add(c.spec(d.Specs[0]))
}

func (c *Conv) funcDecl(d *ast.FuncDecl) *Statement { return c.funcDeclOn(newSt(), d) }

// funcDeclOn builds the declaration on an existing (possibly already added) statement.
func (c *Conv) funcDeclOn(st *Statement, d *ast.FuncDecl) *Statement {
	st.Func()
	if d.Recv != nil {
		c.grp(st, "Params", c.fieldList(d.Recv)...)
	}
	st.Id(d.Name.Name)
	c.funcType(st, d.Type)
	if d.Body != nil {
		c.grp(st, "Block", c.stmts(d.Body.List)...)
	}
	return st
}

// file builds the jennifer File. realName gives the declared package name for an import path.
// File builds the jennifer File. realName gives the declared package name for an import path.
func (c *Conv) File(af *ast.File, realName func(path string) string) *File {
	f := NewFile(af.Name.Name)
	f.NoFormat = c.Hooks.NoFormat
	c.pkgs = map[string]string{}
	table := map[string]string{}
	defer func() {
		for k := range table {
			table[k] = "zzoverwritten"
		}
	}()
	for _, is := range af.Imports {
		path, err := strconv.Unquote(is.Path.Value)
		if err != nil {
			c.Skip = "bad import path"
			continue
		}
		switch {
		case path == "C":
			c.pkgs["C"] = "C"
			f.Anon("C") // imported even if no C.name is referenced
			if is.Doc != nil {
				for _, cm := range is.Doc.List {
					f.CgoPreamble(cm.Text)
				}
			}
		case is.Name == nil:
			n := realName(path)
			if n == "" {
				c.Skip = "unknown package name for " + path
				continue
			}
			if c.Hooks.NamesTable {
				table[path] = n
			} else {
				f.ImportName(path, n)
			}
			c.pkgs[n] = path
		case is.Name.Name == "_":
			f.Anon(path)
		case is.Name.Name == ".":
			c.Skip = "dot import (uses not resolvable syntactically)"
		default:
			f.ImportAlias(path, is.Name.Name)
			c.pkgs[is.Name.Name] = path
		}
	}
	if c.Hooks.NamesTable && len(table) > 0 {
		f.ImportNames(table)
	}
	for _, d := range af.Decls {
		switch d := d.(type) {
		case *ast.GenDecl:
			if d.Tok == token.IMPORT {
				continue
			}
			if c.Hooks.EarlyAdd {
				st := newSt()
				f.Add(st)
				c.genDeclOn(st, d)
			} else {
				f.Add(c.genDecl(d))
			}
		case *ast.FuncDecl:
			if c.Hooks.EarlyAdd {
				st := newSt()
				f.Add(st)
				c.funcDeclOn(st, d)
			} else {
				f.Add(c.funcDecl(d))
			}
		default:
			c.Skip = fmt.Sprintf("unhandled decl %T", d)
		}
	}
	return f
}
