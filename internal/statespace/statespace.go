// Package statespace is engine E2: explicit-state breadth-first search over the real
// implementation driven as a transition system. A state is identified with a history (the
// operation sequence that produced it); live jennifer objects cannot be cloned, so a successor
// is produced by replaying the history on fresh real objects plus one more operation. States are
// de-duplicated on a canonical key computed from the real objects; the invariant is evaluated
// once in every distinct state. Breadth-first order yields shortest counterexamples.
package statespace

import (
	"crypto/sha256"
	"runtime"
	"sync"
	"sync/atomic"
)

// System describes the transition system.
type System struct {
	// NumOps is the size of the operation alphabet.
	NumOps int
	// Step replays hist (whose last element is the new operation) on fresh objects and returns
	// the canonical key of the state reached; enabled=false means the last operation is not
	// applicable in the state reached by hist[:len-1] (no transition).
	Step func(hist []int) (key string, enabled bool)
	// Invariant is evaluated once for every distinct state (on objects replayed again, since
	// evaluating it may itself change state). It reports violations itself.
	Invariant func(hist []int)
	MaxDepth  int
	Workers   int
	Stop      func() bool
	// Tick, if set, is called after every Step (progress report for watchdogs).
	Tick func()
	// MaxStates caps the number of states (0 = none); reaching it ends the search (not exhaustive).
	MaxStates int64
}

// Result of a search.
type Result struct {
	States       int64
	Transitions  int64
	Invariants   int64
	Depth        int // deepest level completely expanded
	PerDepth     []int64
	FrontierLeft int64 // states at Depth that were not expanded because MaxDepth was reached
	Complete     bool  // true when every level up to MaxDepth was expanded completely
	Exhausted    bool  // true when the frontier became empty (whole reachable space covered)
}

type succ struct {
	key  [16]byte
	hist []int
}

// digest shortens a canonical key to 128 bits of SHA-256 (keys are kilobytes long; a collision
// would merge two states silently, which at 2^-128 per pair is ignored).
func digest(key string) (d [16]byte) {
	h := sha256.Sum256([]byte(key))
	copy(d[:], h[:16])
	return d
}

// Search runs the BFS.
func Search(sys System) Result {
	workers := sys.Workers
	if workers <= 0 {
		workers = runtime.GOMAXPROCS(0)
	}
	var res Result
	res.Complete = true
	seen := map[[16]byte]struct{}{}
	k0, _ := sys.Step(nil)
	seen[digest(k0)] = struct{}{}
	res.States = 1
	res.PerDepth = []int64{1}
	if sys.Invariant != nil {
		sys.Invariant(nil)
		res.Invariants++
	}
	frontier := [][]int{{}}
	var stopped atomic.Bool
	for d := 1; d <= sys.MaxDepth && len(frontier) > 0; d++ {
		// expand every frontier state by every op, in parallel
		results := make([][]succ, len(frontier))
		var trans atomic.Int64
		var next atomic.Int64
		var wg sync.WaitGroup
		for w := 0; w < workers; w++ {
			wg.Add(1)
			go func() {
				defer wg.Done()
				for {
					i := int(next.Add(1) - 1)
					if i >= len(frontier) {
						return
					}
					if stopped.Load() || (sys.Stop != nil && sys.Stop()) {
						stopped.Store(true)
						return
					}
					h := frontier[i]
					for op := 0; op < sys.NumOps; op++ {
						nh := make([]int, len(h)+1)
						copy(nh, h)
						nh[len(h)] = op
						key, ok := sys.Step(nh)
						if sys.Tick != nil {
							sys.Tick()
						}
						if !ok {
							continue
						}
						trans.Add(1)
						results[i] = append(results[i], succ{digest(key), nh})
					}
				}
			}()
		}
		wg.Wait()
		res.Transitions += trans.Load()
		if stopped.Load() {
			res.Complete = false
			break
		}
		var newStates [][]int
		capped := false
		for _, rs := range results {
			for _, s := range rs {
				if _, dup := seen[s.key]; dup {
					continue
				}
				if sys.MaxStates > 0 && res.States >= sys.MaxStates {
					capped = true
					continue
				}
				seen[s.key] = struct{}{}
				res.States++
				newStates = append(newStates, s.hist)
			}
		}
		res.PerDepth = append(res.PerDepth, int64(len(newStates)))
		// invariants on the new states, in parallel
		if sys.Invariant != nil {
			var ni atomic.Int64
			var wg2 sync.WaitGroup
			for w := 0; w < workers; w++ {
				wg2.Add(1)
				go func() {
					defer wg2.Done()
					for {
						i := int(ni.Add(1) - 1)
						if i >= len(newStates) {
							return
						}
						sys.Invariant(newStates[i])
					}
				}()
			}
			wg2.Wait()
			res.Invariants += int64(len(newStates))
		}
		res.Depth = d
		frontier = newStates
		if capped {
			res.Complete = false
			break
		}
	}
	res.FrontierLeft = int64(len(frontier))
	res.Exhausted = res.Complete && len(frontier) == 0
	return res
}
