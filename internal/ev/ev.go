// Package ev collects what a check covered (evidence), the violations it found, and turns them
// into the evidence file, the replay files and the VIOLATION / KNOWN-FINDING lines of the
// interface. It is safe for concurrent use by the workers of one check.
package ev

import (
	"crypto/sha256"
	"encoding/hex"
	"encoding/json"
	"fmt"
	"hash/maphash"
	"os"
	"path/filepath"
	"sort"
	"strconv"
	"strings"
	"sync"
	"sync/atomic"
	"time"
	"verif/internal/explore"
)

// Root is the /verif directory (evidence, replays and known_findings.json live below it).
var Root = func() string {
	if r := os.Getenv("VERIF_ROOT"); r != "" {
		return r
	}
	return "/verif"
}()

// OutRoot is where evidence and replay files are written: Root, unless VERIF_OUT names another
// directory (used when checks are run against scratch copies with deliberate defects, so that
// the evidence of the real tree is not overwritten).
var OutRoot = func() string {
	if r := os.Getenv("VERIF_OUT"); r != "" {
		return r
	}
	return Root
}()

type Tier string

const (
	Quick    Tier = "quick"
	Thorough Tier = "thorough"
)

// Violation is one failing case.
type Violation struct {
	Signature string          `json:"signature"` // classifier of the failing input, matched against known_findings.json
	What      string          `json:"what"`      // one line for humans
	Case      json.RawMessage `json:"case"`      // what Replay needs to re-execute exactly this case
	Detail    string          `json:"detail"`    // observed vs expected
	GoTest    string          `json:"go_test,omitempty"`
}

type finding struct {
	Property  string `json:"property"`
	Status    string `json:"status"`
	Signature string `json:"signature"`
	What      string `json:"what"`
	Commit    string `json:"commit,omitempty"`
}

// Recorder accumulates coverage for one run of one check.
type Recorder struct {
	ticks    atomic.Int64
	Property string
	Level    string
	Tier     Tier
	Seed     int64
	Rule     string
	Assume   []string
	start    time.Time

	evals    atomic.Int64
	extra    sync.Map // name -> *atomic.Int64
	seed     maphash.Seed
	shards   [64]distinctShard
	capHit   atomic.Bool
	maxDist  int64
	mu       sync.Mutex
	samples  []any
	maxSamp  int
	viols    []Violation
	violSigs map[string]int
	notes    map[string]any
	Exhaust  bool
	deadline time.Time
	external atomic.Int32 // > 0 while the check waits for a worker process
	current  atomic.Value // string: the case announced by Announce
}

// Announce names the case a (sequential) part of the check is about to execute, so that the
// watchdog can say what did not terminate.
func (r *Recorder) Announce(desc string) { r.current.Store(desc) }

// External runs fn (waiting for a worker process) with the watchdog suspended.
func (r *Recorder) External(fn func()) {
	r.external.Add(1)
	defer r.external.Add(-1)
	fn()
}

// Watch starts the watchdog: if no execution finishes for `stall` (and the check is not waiting
// for a worker process), some execution of the implementation does not terminate. That is
// reported as a violation - every property presupposes that building and rendering return - and
// the process ends, because a goroutine stuck inside the library cannot be interrupted.
func (r *Recorder) Watch(stall time.Duration) {
	go func() {
		last, since := r.evals.Load()+r.ticks.Load(), time.Now()
		for {
			time.Sleep(5 * time.Second)
			if n := r.evals.Load() + r.ticks.Load(); n != last || r.external.Load() > 0 {
				last, since = n, time.Now()
				continue
			}
			if time.Since(since) < stall {
				continue
			}
			cur, _ := r.current.Load().(string)
			r.Violate(Violation{Signature: strings.ToLower(r.Property) + ":no-termination",
				What:   fmt.Sprintf("no execution finished for %s: building or rendering does not terminate (last announced case: %q)", stall, cur),
				Case:   JSON(map[string]string{"kind": "no-termination", "last_announced": cur}),
				Detail: "the check was stopped by its watchdog; evaluations so far: " + fmt.Sprint(last)})
			r.NotExhaustive("stopped by the watchdog")
			os.Exit(r.Finish())
		}
	}()
}

type distinctShard struct {
	mu sync.Mutex
	m  map[uint64]struct{}
}

func New(property, level string, tier Tier) *Recorder {
	seed, _ := strconv.ParseInt(os.Getenv("VERIF_SEED"), 10, 64)
	r := &Recorder{Property: property, Level: level, Tier: tier, Seed: seed, start: time.Now(),
		seed: maphash.MakeSeed(), maxSamp: 12, violSigs: map[string]int{}, notes: map[string]any{},
		Exhaust: true, maxDist: 40_000_000}
	for i := range r.shards {
		r.shards[i].m = map[uint64]struct{}{}
	}
	explore.PanicHook = r.PanicHook
	return r
}

// PanicHook turns a panic that was raised inside jennifer (the innermost non-runtime frame of the
// panicking goroutine belongs to the library) while a check was building or rendering code
// outside its own guarded sections into a violation; any other panic is a harness failure.
func (r *Recorder) PanicHook(where string, p any, stack []byte) bool {
	lines := strings.Split(string(stack), "\n")
	started := false
	for _, l := range lines {
		if strings.HasPrefix(l, "panic(") {
			started = true
			continue
		}
		if !started || strings.HasPrefix(l, "\t") || strings.HasPrefix(l, "runtime.") || strings.HasPrefix(l, "runtime/") {
			continue
		}
		// the first frame after panic(...) that is not the runtime's
		if strings.HasPrefix(l, "github.com/dave/jennifer/jen.") {
			lid := strings.ToLower(r.Property)
			r.Violate(Violation{Signature: lid + ":panic-inside-jennifer:" + problemHead(fmt.Sprint(p)), What: fmt.Sprintf("%s: jennifer panicked: %v", where, p), Case: JSON(where), Detail: string(stack)})
			return true
		}
		return false
	}
	return false
}

func problemHead(s string) string {
	if len(s) > 50 {
		s = s[:50]
	}
	return s
}

// SetDeadline installs an internal deadline; checks poll Expired and stop early (exit 0,
// exhaustive:false) rather than being killed from outside.
func (r *Recorder) SetDeadline(d time.Duration) { r.deadline = r.start.Add(d) }
func (r *Recorder) Expired() bool {
	if r.deadline.IsZero() {
		return false
	}
	if time.Now().After(r.deadline) {
		r.NotExhaustive("internal deadline reached")
		return true
	}
	return false
}

func (r *Recorder) Eval(n int64) { r.evals.Add(n) }

// Tick records progress that is no evaluation (a transition of a state-space search executed on
// the implementation): the watchdog counts it as a finished execution.
func (r *Recorder) Tick()              { r.ticks.Add(1) }
func (r *Recorder) Evaluations() int64 { return r.evals.Load() }

// Count adds to a named extra counter (reported under coverage).
func (r *Recorder) Count(name string, n int64) {
	v, ok := r.extra.Load(name)
	if !ok {
		v, _ = r.extra.LoadOrStore(name, new(atomic.Int64))
	}
	v.(*atomic.Int64).Add(n)
}
func (r *Recorder) Counter(name string) int64 {
	if v, ok := r.extra.Load(name); ok {
		return v.(*atomic.Int64).Load()
	}
	return 0
}

// Distinct records the key of a non-trivial case; distinct keys are counted (by 64-bit hash).
// It reports whether the key was new.
func (r *Recorder) Distinct(key string) bool {
	h := maphash.String(r.seed, key)
	s := &r.shards[h&63]
	s.mu.Lock()
	defer s.mu.Unlock()
	if _, ok := s.m[h]; ok {
		return false
	}
	if int64(len(s.m)) >= r.maxDist/64 {
		r.capHit.Store(true)
		return true
	}
	s.m[h] = struct{}{}
	return true
}
func (r *Recorder) DistinctCount() int64 {
	var n int64
	for i := range r.shards {
		r.shards[i].mu.Lock()
		n += int64(len(r.shards[i].m))
		r.shards[i].mu.Unlock()
	}
	return n
}

// Sample keeps the first few cases written out.
func (r *Recorder) Sample(s any) {
	r.mu.Lock()
	if len(r.samples) < r.maxSamp {
		r.samples = append(r.samples, s)
	}
	r.mu.Unlock()
}
func (r *Recorder) WantSample() bool {
	r.mu.Lock()
	defer r.mu.Unlock()
	return len(r.samples) < r.maxSamp
}

func (r *Recorder) Note(k string, v any) {
	r.mu.Lock()
	r.notes[k] = v
	r.mu.Unlock()
}

func (r *Recorder) NotExhaustive(why string) {
	r.mu.Lock()
	r.Exhaust = false
	r.notes["not_exhaustive_because"] = why
	r.mu.Unlock()
}

// Violate records a violation; at most a few per signature are kept in full.
func (r *Recorder) Violate(v Violation) {
	r.mu.Lock()
	defer r.mu.Unlock()
	r.violSigs[v.Signature]++
	if r.violSigs[v.Signature] <= 2 && len(r.viols) < 40 {
		r.viols = append(r.viols, v)
	}
}
func (r *Recorder) Violations() int {
	r.mu.Lock()
	defer r.mu.Unlock()
	n := 0
	for _, c := range r.violSigs {
		n += c
	}
	return n
}

func loadFindings() []finding {
	b, err := os.ReadFile(filepath.Join(Root, "known_findings.json"))
	if err != nil {
		return nil
	}
	var f struct {
		Findings []finding `json:"findings"`
	}
	if json.Unmarshal(b, &f) != nil {
		fmt.Fprintln(os.Stderr, "warning: known_findings.json does not parse")
	}
	return f.Findings
}

// Finish writes the evidence file and prints the interface lines; it returns the exit code.
func (r *Recorder) Finish() int {
	known := map[string]finding{}
	for _, f := range loadFindings() {
		if f.Property == r.Property && f.Status == "known" {
			known[f.Signature] = f
		}
	}
	r.mu.Lock()
	viols := append([]Violation(nil), r.viols...)
	sigs := map[string]int{}
	for k, v := range r.violSigs {
		sigs[k] = v
	}
	r.mu.Unlock()
	sort.SliceStable(viols, func(i, j int) bool { return viols[i].Signature < viols[j].Signature })

	exit := 0
	unknown := 0
	printedKnown := map[string]bool{}
	for _, v := range viols {
		if f, ok := known[v.Signature]; ok {
			if !printedKnown[v.Signature] {
				fmt.Printf("KNOWN-FINDING: property=%s %s [%s] (%d cases)\n", r.Property, f.What, v.Signature, sigs[v.Signature])
				printedKnown[v.Signature] = true
			}
			continue
		}
		unknown++
		path := r.writeReplay(v)
		fmt.Printf("VIOLATION property=%s replay=%s\n", r.Property, path)
		fmt.Printf("  signature=%s (%d cases) %s\n", v.Signature, sigs[v.Signature], v.What)
		exit = 1
	}
	nviol := 0
	for s, c := range sigs {
		if _, ok := known[s]; !ok {
			nviol += c
		}
	}

	cov := map[string]any{}
	r.extra.Range(func(k, v any) bool {
		cov[k.(string)] = v.(*atomic.Int64).Load()
		return true
	})
	for k, v := range r.notes {
		cov[k] = v
	}
	cov["evaluations"] = r.evals.Load()
	cov["distinct_nontrivial"] = r.DistinctCount()
	if r.capHit.Load() {
		cov["distinct_count_capped"] = true
	}
	cov["rule"] = r.Rule
	cov["samples"] = r.samples
	cov["exhaustive"] = r.Exhaust
	if r.Level == "model_checking" {
		for _, k := range []string{"states", "transitions", "traces_validated_against_impl"} {
			if _, ok := cov[k]; !ok {
				cov[k] = int64(0)
			}
		}
	}
	if len(sigs) > 0 {
		cov["violation_signatures"] = sigs
	}
	evd := map[string]any{
		"property_id": r.Property,
		"tier":        string(r.Tier),
		"seed":        r.Seed,
		"level":       r.Level,
		"coverage":    cov,
		"assumptions": r.Assume,
		"wall_s":      time.Since(r.start).Seconds(),
		"violations":  nviol,
	}
	b, _ := json.MarshalIndent(evd, "", " ")
	os.MkdirAll(filepath.Join(OutRoot, "evidence"), 0o755)
	if err := os.WriteFile(filepath.Join(OutRoot, "evidence", r.Property+".json"), append(b, '\n'), 0o644); err != nil {
		fmt.Fprintln(os.Stderr, "cannot write evidence:", err)
		return 2
	}
	fmt.Printf("%s %s: evaluations=%d distinct=%d violations=%d exhaustive=%v wall=%.1fs\n", r.Property, r.Tier,
		r.evals.Load(), r.DistinctCount(), nviol, r.Exhaust, time.Since(r.start).Seconds())
	return exit
}

func (r *Recorder) writeReplay(v Violation) string {
	h := sha256.Sum256(append([]byte(v.Signature), v.Case...))
	name := fmt.Sprintf("%s-%s.json", r.Property, hex.EncodeToString(h[:6]))
	dir := filepath.Join(OutRoot, "replays")
	os.MkdirAll(dir, 0o755)
	path := filepath.Join(dir, name)
	b, _ := json.MarshalIndent(map[string]any{
		"property": r.Property, "signature": v.Signature, "what": v.What, "case": v.Case, "detail": v.Detail, "go_test": v.GoTest,
	}, "", " ")
	os.WriteFile(path, append(b, '\n'), 0o644)
	return path
}

// ReplayFile is what a replay file contains.
type ReplayFile struct {
	Property  string          `json:"property"`
	Signature string          `json:"signature"`
	What      string          `json:"what"`
	Case      json.RawMessage `json:"case"`
	Detail    string          `json:"detail"`
}

func ReadReplay(path string) (*ReplayFile, error) {
	b, err := os.ReadFile(path)
	if err != nil {
		return nil, err
	}
	var rf ReplayFile
	if err := json.Unmarshal(b, &rf); err != nil {
		return nil, err
	}
	return &rf, nil
}

// JSON marshals v for Violation.Case.
func JSON(v any) json.RawMessage {
	b, err := json.Marshal(v)
	if err != nil {
		panic(err)
	}
	return b
}
