// Package imp is the shared harness for the properties about a File's import table (C03, C04,
// C05, C06, C08, C18, C19): a World is one real jen.File plus the bookkeeping the oracles need
// (which reference was built with which path, which paths were made anonymous, the declared name
// of every package), operations that drive the real API, and oracles computed from the parsed
// and type-checked output. The oracles use go/parser and go/types with a fabricated importer;
// jennifer's own helpers are never consulted.
package imp

import (
	"fmt"
	"go/ast"
	"go/token"
	"go/types"
	"reflect"
	"regexp"
	"sort"
	"strconv"
	"strings"

	"github.com/dave/jennifer/jen"

	"verif/internal/jh"
)

// Ref is one qualified identifier put into the File.
type Ref struct {
	Path     string
	Sym      string
	Wrapper  string
	Rendered bool // whether the wrapper lets it render (false: e.g. a Dict pair with a null value)
}

// World is one File under test.
type World struct {
	F        *jen.File
	Ctor     string
	Local    string // the File's own package path ("" = none)
	Refs     []Ref
	Anon     []string
	Preamble []string
	Log      []string // operations applied, for messages
	// Dot records, per path, whether the last hint given for it is ImportAlias(path, ".")
	// (meaningful for histories without a render in between).
	Dot map[string]bool
	// TrueName gives the declared package name of a path: the name ImportName may (truthfully)
	// state, and the name the fabricated importer declares the package under.
	TrueName func(path string) string
	// MidProblems: failures of intermediate renders (MidRender).
	MidProblems []string
	// Expect: names that outputs produced with the File before the final render have shown for paths
	Expect map[string]string
}

// StdNames are the real names of the standard-library paths used in alphabets.
var StdNames = map[string]string{
	"fmt": "fmt", "os": "os", "math/rand": "rand", "crypto/rand": "rand", "text/template": "template", "html/template": "template",
	"go/types": "types", "encoding/json": "json", "encoding": "encoding", "math/rand/v2": "rand", "unsafe": "unsafe", "io": "io",
}

// DefaultTrueName: std paths have their real name, registered names come from the table, any
// other package is declared under a name nobody can guess, so that it type-checks only when
// imported with an alias.
func DefaultTrueName(table map[string]string) func(string) string {
	return func(p string) string {
		if n, ok := table[p]; ok {
			return n
		}
		if n, ok := StdNames[p]; ok {
			return n
		}
		h := 0
		for _, c := range []byte(p) {
			h = h*31 + int(c)
		}
		return fmt.Sprintf("zzunguessable%d", uint32(h))
	}
}

// Bare makes New leave the File's body empty (no helper function); set only around single-threaded
// construction of worlds that are about Files without code.
var Bare bool

// New makes a world. ctor: "NewFile" (name main... no path), "NewFilePath", "NewFilePathName".
func New(ctor, local string, trueName func(string) string) *World {
	w := &World{Ctor: ctor, Local: local, TrueName: trueName, Dot: map[string]bool{}}
	switch ctor {
	case "NewFile":
		w.F = jen.NewFile("pkgmain")
		w.Local = ""
	case "NewFilePath":
		w.F = jen.NewFilePath(local)
	case "NewFilePathName":
		w.F = jen.NewFilePathName(local, "pkgmain")
	default:
		// "NewFilePathName:<package name>"
		if name, ok := strings.CutPrefix(ctor, "NewFilePathName:"); ok {
			w.F = jen.NewFilePathName(local, name)
			break
		}
		panic("imp: unknown ctor " + ctor)
	}
	w.Log = append(w.Log, fmt.Sprintf("%s(%q)", ctor, local))
	if Bare {
		return w
	}
	// helper used by some wrappers
	w.F.Func().Id("Zid").Params(jen.Id("a").Op("...").Int()).Int().Block(jen.Return(jen.Lit(0)))
	return w
}

// Wrapper places a reference somewhere in a declaration.
type Wrapper struct {
	Name     string
	Rendered bool
	Build    func(q jen.Code, n int) jen.Code
}

// Wrappers: index 0 is the plain one.
var Wrappers = []Wrapper{
	{"plain", true, func(q jen.Code, n int) jen.Code { return jen.Var().Id("_").Op("=").Add(q) }},
	{"callarg", true, func(q jen.Code, n int) jen.Code { return jen.Var().Id("_").Op("=").Id("Zid").Call(jen.Lit(1), q) }},
	{"list", true, func(q jen.Code, n int) jen.Code {
		return jen.Var().List(jen.Id("_"), jen.Id("_")).Op("=").List(q, jen.Lit(1))
	}},
	{"values", true, func(q jen.Code, n int) jen.Code { return jen.Var().Id("_").Op("=").Index().Int().Values(q) }},
	{"index", true, func(q jen.Code, n int) jen.Code {
		return jen.Var().Id("_").Op("=").Index().Int().Values(jen.Lit(7)).Index(q)
	}},
	{"case", true, func(q jen.Code, n int) jen.Code {
		return jen.Func().Id(fmt.Sprintf("Zfn%d", n)).Params().Block(jen.Switch(jen.Lit(0)).Block(jen.Case(q).Block()))
	}},
	{"caseblock", true, func(q jen.Code, n int) jen.Code {
		return jen.Func().Id(fmt.Sprintf("Zfn%d", n)).Params().Block(jen.Switch(jen.Lit(0)).Block(jen.Default().Block(jen.Id("_").Op("=").Add(q))))
	}},
	{"dictkey", true, func(q jen.Code, n int) jen.Code {
		return jen.Var().Id("_").Op("=").Map(jen.Int()).Int().Values(jen.Dict{q: jen.Lit(1)})
	}},
	{"dictvalue", true, func(q jen.Code, n int) jen.Code {
		return jen.Var().Id("_").Op("=").Map(jen.Int()).Int().Values(jen.Dict{jen.Lit(1): q, jen.Lit(2): jen.Lit(3)})
	}},
	{"addnull", true, func(q jen.Code, n int) jen.Code { return jen.Var().Id("_").Op("=").Add(jen.Null(), q) }},
	{"return-parens", true, func(q jen.Code, n int) jen.Code {
		return jen.Func().Id(fmt.Sprintf("Zfn%d", n)).Params().Int().Block(jen.Return(jen.Parens(q)))
	}},
	{"dictkey-nullvalue", false, func(q jen.Code, n int) jen.Code {
		return jen.Var().Id("_").Op("=").Map(jen.Int()).Int().Values(jen.Dict{q: jen.Null(), jen.Lit(2): jen.Lit(3)})
	}},
	{"dictvalue-nullkey", false, func(q jen.Code, n int) jen.Code {
		return jen.Var().Id("_").Op("=").Map(jen.Int()).Int().Values(jen.Dict{jen.Null(): q, jen.Lit(2): jen.Lit(3)})
	}},
	{"dict-allnull", false, func(q jen.Code, n int) jen.Code {
		return jen.Var().Id("_").Op("=").Map(jen.Int()).Int().Values(jen.Dict{q: jen.Null()})
	}},
}

// WrapperIndex finds a wrapper by name.
func WrapperIndex(name string) int {
	for i, w := range Wrappers {
		if w.Name == name {
			return i
		}
	}
	panic("imp: no wrapper " + name)
}

// NewRef builds the qualified identifier for the next reference and records it; the caller
// places the returned Code (already wrapped) where it wants.
func (w *World) NewRef(path string, wrapper int) jen.Code {
	n := len(w.Refs)
	sym := fmt.Sprintf("R%d", n)
	wr := Wrappers[wrapper]
	w.Refs = append(w.Refs, Ref{Path: path, Sym: sym, Wrapper: wr.Name, Rendered: wr.Rendered})
	return wr.Build(jen.Qual(path, sym), n)
}

// Ref adds a reference to path to the File body.
func (w *World) Ref(path string, wrapper int) {
	n := len(w.Refs)
	code := w.NewRef(path, wrapper)
	if path == w.Local && w.Local != "" {
		// a reference to the local package is a bare identifier: declare it
		w.F.Var().Id(fmt.Sprintf("R%d", n)).Op("=").Lit(0)
	}
	w.F.Add(code)
	w.Log = append(w.Log, fmt.Sprintf("Ref(%q,%s)", path, Wrappers[wrapper].Name))
}

// RefsInOneDict adds references to all the given paths inside ONE Dict - as the values of its pairs
// (keys are distinct literals) or as the keys (values are literals) - in a single declaration.
func (w *World) RefsInOneDict(paths []string, asKeys bool) {
	d := jen.Dict{}
	for i, p := range paths {
		n := len(w.Refs)
		sym := fmt.Sprintf("R%d", n)
		w.Refs = append(w.Refs, Ref{Path: p, Sym: sym, Wrapper: "one-dict", Rendered: true})
		if p == w.Local && w.Local != "" {
			w.F.Var().Id(sym).Op("=").Lit(0)
		}
		if asKeys {
			d[jen.Qual(p, sym)] = jen.Lit(i)
		} else {
			d[jen.Lit(i)] = jen.Qual(p, sym)
		}
	}
	if asKeys {
		w.F.Var().Id("_").Op("=").Map(jen.Interface()).Int().Values(d)
	} else {
		w.F.Var().Id("_").Op("=").Map(jen.Int()).Interface().Values(d)
	}
	w.Log = append(w.Log, fmt.Sprintf("RefsInOneDict(%q, as keys: %v)", paths, asKeys))
}

func (w *World) Name(path string) {
	w.F.ImportName(path, w.TrueName(path))
	w.Dot[path] = false
	w.Log = append(w.Log, fmt.Sprintf("ImportName(%q,%q)", path, w.TrueName(path)))
}

func (w *World) Names(paths ...string) {
	m := map[string]string{}
	for _, p := range paths {
		m[p] = w.TrueName(p)
		w.Dot[p] = false
	}
	w.F.ImportNames(m)
	w.Log = append(w.Log, fmt.Sprintf("ImportNames(%v)", m))
}

func (w *World) Alias(path, alias string) {
	w.F.ImportAlias(path, alias)
	w.Dot[path] = alias == "."
	w.Log = append(w.Log, fmt.Sprintf("ImportAlias(%q,%q)", path, alias))
}

func (w *World) AnonImport(path string) {
	w.F.Anon(path)
	for _, p := range w.Anon {
		if p == path {
			w.Log = append(w.Log, fmt.Sprintf("Anon(%q)", path))
			return
		}
	}
	w.Anon = append(w.Anon, path)
	w.Log = append(w.Log, fmt.Sprintf("Anon(%q)", path))
}

func (w *World) Prefix(p string) {
	w.F.PackagePrefix = p
	w.Log = append(w.Log, fmt.Sprintf("PackagePrefix=%q", p))
}

// MidRender renders the File in the middle of a history (output discarded; a failure is kept
// in MidProblems and reported by the caller's oracle).
func (w *World) MidRender() {
	if o := w.Render(); !o.OK() {
		w.MidProblems = append(w.MidProblems, "intermediate render failed: "+o.String())
	}
	w.Log = append(w.Log, "File.Render")
}

func (w *World) CgoPreamble(s string) {
	w.F.CgoPreamble(s)
	w.Preamble = append(w.Preamble, s)
	w.Log = append(w.Log, fmt.Sprintf("CgoPreamble(%q)", jh.Short(s, 80)))
}

// Spec is one import spec of the output.
type Spec struct {
	Name        string // "" when no name is written
	Path        string
	Decl        int      // index of its import declaration
	Doc         string   // doc comment text of the declaration (raw, with markers)
	DocComments []string // the comments of the doc comment group
	Alone       bool     // the only spec of its declaration
	Line        int
	DocEndLine  int
}

// Use is one occurrence of a reference symbol.
type Use struct {
	Sym, Qual string
}

// Analysis of one rendered file.
type Analysis struct {
	Src            string
	File           *ast.File
	Fset           *token.FileSet
	Specs          []Spec
	Uses           []Use
	TypeErrs       []string
	NumImportDecls int
}

var symRe = regexp.MustCompile(`^R[0-9]+$`)

// Analyze parses and type-checks src against the world's fabricated packages.
func Analyze(src string, w *World) (*Analysis, error) {
	af, fset, err := jh.ParseFile(src)
	if err != nil {
		return nil, err
	}
	a := &Analysis{Src: src, File: af, Fset: fset}
	di := 0
	for _, d := range af.Decls {
		gd, ok := d.(*ast.GenDecl)
		if !ok || gd.Tok != token.IMPORT {
			continue
		}
		for _, s := range gd.Specs {
			is := s.(*ast.ImportSpec)
			p, _ := strconv.Unquote(is.Path.Value)
			sp := Spec{Path: p, Decl: di, Alone: len(gd.Specs) == 1, Line: fset.Position(gd.Pos()).Line}
			if is.Name != nil {
				sp.Name = is.Name.Name
			}
			if gd.Doc != nil {
				var parts []string
				for _, c := range gd.Doc.List {
					parts = append(parts, c.Text)
					sp.DocComments = append(sp.DocComments, c.Text)
				}
				sp.Doc = strings.Join(parts, "\n")
				sp.DocEndLine = fset.Position(gd.Doc.End()).Line
			}
			a.Specs = append(a.Specs, sp)
		}
		di++
	}
	a.NumImportDecls = di
	// uses of reference symbols
	declared := map[*ast.Ident]bool{}
	sel := map[*ast.Ident]bool{}
	ast.Inspect(af, func(n ast.Node) bool {
		switch x := n.(type) {
		case *ast.ValueSpec:
			for _, id := range x.Names {
				declared[id] = true
			}
		case *ast.SelectorExpr:
			if symRe.MatchString(x.Sel.Name) {
				sel[x.Sel] = true
				q := "?"
				if id, ok := x.X.(*ast.Ident); ok {
					q = id.Name
				}
				a.Uses = append(a.Uses, Use{x.Sel.Name, q})
			}
		}
		return true
	})
	ast.Inspect(af, func(n ast.Node) bool {
		if id, ok := n.(*ast.Ident); ok && symRe.MatchString(id.Name) && !declared[id] && !sel[id] {
			a.Uses = append(a.Uses, Use{id.Name, ""})
		}
		return true
	})
	// type check
	conf := types.Config{
		Importer:    fakeImporter{w},
		FakeImportC: true,
		Error:       func(e error) { a.TypeErrs = append(a.TypeErrs, e.Error()) },
	}
	conf.Check("pkgmain", fset, []*ast.File{af}, nil)
	return a, nil
}

type fakeImporter struct{ w *World }

func (m fakeImporter) Import(path string) (*types.Package, error) {
	p := types.NewPackage(path, m.w.TrueName(path))
	for _, r := range m.w.Refs {
		if r.Path == path {
			p.Scope().Insert(types.NewVar(token.NoPos, p, r.Sym, types.Typ[types.Int]))
		}
	}
	p.MarkComplete()
	return p, nil
}

// Render renders the world's File.
func (w *World) Render() jh.Outcome { return jh.RenderFile(w.F) }

// ---- oracles; each returns descriptions of what is wrong (empty = holds)

// CheckResolve (C03): every reference resolves to the package it was built with (no type
// error at all in the file), and the same path is referred to by one qualifier everywhere.
func CheckResolve(a *Analysis, w *World) []string {
	var out []string
	for _, e := range a.TypeErrs {
		out = append(out, "type error: "+e)
	}
	qual := map[string]string{}
	symPath := map[string]string{}
	for _, r := range w.Refs {
		symPath[r.Sym] = r.Path
	}
	seen := map[string]bool{}
	for _, u := range a.Uses {
		p, ok := symPath[u.Sym]
		if !ok {
			out = append(out, "unknown symbol "+u.Sym+" in output")
			continue
		}
		seen[u.Sym] = true
		if q, ok := qual[p]; ok && q != u.Qual {
			out = append(out, fmt.Sprintf("path %q is referred to as %q and as %q", p, q, u.Qual))
		}
		qual[p] = u.Qual
	}
	for _, r := range w.Refs {
		if r.Rendered && !seen[r.Sym] {
			out = append(out, fmt.Sprintf("reference %s to %q (%s) is missing from the output", r.Sym, r.Path, r.Wrapper))
		}
		if !r.Rendered && seen[r.Sym] {
			out = append(out, fmt.Sprintf("reference %s to %q (%s) should not have been rendered", r.Sym, r.Path, r.Wrapper))
		}
	}
	return out
}

// ExpectedPaths: paths that must be imported: rendered references (except to the local
// package) and anonymous imports, and "C" when a preamble exists.
func ExpectedPaths(w *World) map[string]bool {
	exp := map[string]bool{}
	for _, r := range w.Refs {
		if r.Rendered && !(w.Local != "" && r.Path == w.Local) {
			exp[r.Path] = true
		}
	}
	for _, p := range w.Anon {
		exp[p] = true
	}
	if len(w.Preamble) > 0 {
		exp["C"] = true
	}
	return exp
}

// CheckExact (C04): the import block is exactly the expected set, each path once.
func CheckExact(a *Analysis, w *World) []string {
	var out []string
	exp := ExpectedPaths(w)
	got := map[string]int{}
	for _, s := range a.Specs {
		got[s.Path]++
	}
	for p, n := range got {
		if !exp[p] {
			out = append(out, fmt.Sprintf("import %q is not used by any rendered reference nor anonymous", p))
		}
		if n > 1 {
			out = append(out, fmt.Sprintf("import %q appears %d times", p, n))
		}
	}
	for p := range exp {
		if got[p] == 0 {
			out = append(out, fmt.Sprintf("import %q is missing", p))
		}
	}
	sort.Strings(out)
	return out
}

var universe = func() map[string]bool {
	m := map[string]bool{}
	for _, n := range types.Universe.Names() {
		m[n] = true
	}
	return m
}()

// IllegalName reports why a name may not be used as an import name ("" = legal).
func IllegalName(n string) string {
	switch {
	case !token.IsIdentifier(n):
		return "not an identifier"
	case token.IsKeyword(n):
		return "a keyword"
	case universe[n]:
		return "a predeclared identifier"
	}
	return ""
}

// CheckNames (C05): every written name is legal; no two specs share an effective name.
func CheckNames(a *Analysis, w *World) []string {
	var out []string
	byName := map[string]string{}
	for _, s := range a.Specs {
		n := s.Name
		if n == "_" || n == "." {
			continue
		}
		if s.Path == "C" {
			n = "C" // the cgo pseudo-package is always known as C
		} else if n != "" {
			if why := IllegalName(n); why != "" {
				out = append(out, fmt.Sprintf("import name %q for %q is %s", n, s.Path, why))
			}
		} else if s.Path != "C" {
			n = w.TrueName(s.Path)
		}
		if other, dup := byName[n]; dup && other != s.Path {
			out = append(out, fmt.Sprintf("paths %q and %q share the import name %q", other, s.Path, n))
		}
		byName[n] = s.Path
	}
	return out
}

// CheckCgo (C19).
func CheckCgo(a *Analysis, w *World) []string {
	var out []string
	var cspecs []Spec
	for _, s := range a.Specs {
		if s.Path == "C" {
			cspecs = append(cspecs, s)
		}
	}
	wantC := ExpectedPaths(w)["C"]
	if !wantC {
		if len(cspecs) > 0 {
			out = append(out, `"C" imported although never introduced`)
		}
		return out
	}
	if len(cspecs) != 1 {
		return append(out, fmt.Sprintf(`%d import specs for "C", want exactly 1`, len(cspecs)))
	}
	c := cspecs[0]
	if c.Name != "" {
		out = append(out, fmt.Sprintf(`"C" is imported under the name %q`, c.Name))
	}
	symPath := map[string]string{}
	for _, r := range w.Refs {
		symPath[r.Sym] = r.Path
	}
	for _, u := range a.Uses {
		if symPath[u.Sym] == "C" && u.Qual != "C" {
			out = append(out, fmt.Sprintf(`reference C.%s rendered with qualifier %q`, u.Sym, u.Qual))
		}
	}
	if len(w.Preamble) > 0 {
		if !c.Alone {
			out = append(out, `preamble given but import "C" shares its declaration with other imports`)
		}
		for _, s := range a.Specs {
			if s.Path != "C" && s.Decl > c.Decl {
				out = append(out, fmt.Sprintf("import %q comes after the cgo import", s.Path))
			}
		}
		var want, got []string
		for _, p := range w.Preamble {
			want = append(want, CommentLines(p)...)
		}
		for _, d := range c.DocComments {
			got = append(got, CommentLines(d)...)
		}
		if strings.Join(got, "\x00") != strings.Join(want, "\x00") {
			var short []string
			for _, p := range w.Preamble {
				short = append(short, jh.Short(p, 120))
			}
			out = append(out, fmt.Sprintf("doc comment of import \"C\" is %q (%d bytes), want the preamble blocks %q in order", jh.Short(c.Doc, 300), len(c.Doc), short))
		} else if c.DocEndLine+1 != c.Line {
			out = append(out, fmt.Sprintf("blank line between the preamble (ends line %d) and import \"C\" (line %d)", c.DocEndLine, c.Line))
		}
	} else if c.Doc != "" {
		out = append(out, fmt.Sprintf(`no preamble given but import "C" has doc %q`, c.Doc))
	}
	return out
}

// CommentLines returns the non-blank, trimmed lines of a comment's text with the comment markers
// removed (for a raw "//" comment spanning several lines, from every line).
func CommentLines(s string) []string {
	if strings.HasPrefix(s, "/*") {
		s = strings.TrimSuffix(strings.TrimPrefix(s, "/*"), "*/")
	}
	var ls []string
	slash := strings.HasPrefix(s, "//")
	for _, l := range strings.Split(s, "\n") {
		l = strings.TrimSpace(l)
		if slash {
			l = strings.TrimSpace(strings.TrimPrefix(l, "//"))
		}
		if l != "" {
			ls = append(ls, l)
		}
	}
	return ls
}

// CheckLocalDot (C06): references to the File's own path and to dot-imported paths are bare,
// the local path is never imported, a dot-imported path has exactly one `. "path"` spec; every
// other path is imported under a name and referenced through a qualifier.
func CheckLocalDot(a *Analysis, w *World) []string {
	var out []string
	symPath := map[string]string{}
	used := map[string]bool{}
	for _, r := range w.Refs {
		symPath[r.Sym] = r.Path
		if r.Rendered {
			used[r.Path] = true
		}
	}
	specs := map[string][]Spec{}
	for _, s := range a.Specs {
		specs[s.Path] = append(specs[s.Path], s)
	}
	for _, u := range a.Uses {
		p := symPath[u.Sym]
		local := w.Local != "" && p == w.Local
		dot := w.Dot[p] && !local && p != "C"
		switch {
		case local && u.Qual != "":
			out = append(out, fmt.Sprintf("reference to the local package %q rendered as %s.%s", p, u.Qual, u.Sym))
		case dot && u.Qual != "":
			out = append(out, fmt.Sprintf("reference to the dot-imported %q rendered as %s.%s", p, u.Qual, u.Sym))
		case !local && !dot && u.Qual == "":
			out = append(out, fmt.Sprintf("reference to %q (neither local nor dot-imported) rendered as the bare name %s", p, u.Sym))
		}
	}
	anon := map[string]bool{}
	for _, p := range w.Anon {
		anon[p] = true
	}
	// (an explicit Anon of the File's own path is the caller's doing, not the reference's)
	if w.Local != "" && len(specs[w.Local]) > 0 && !anon[w.Local] {
		out = append(out, fmt.Sprintf("the local package %q is imported", w.Local))
	}
	for p := range used {
		if w.Local != "" && p == w.Local {
			continue
		}
		if w.Dot[p] && p != "C" {
			if len(specs[p]) != 1 || specs[p][0].Name != "." {
				out = append(out, fmt.Sprintf("dot-imported %q has import specs %v, want exactly one `. %q`", p, specs[p], p))
			}
		} else if p != "C" {
			for _, s := range specs[p] {
				if s.Name == "." {
					out = append(out, fmt.Sprintf("%q is dot-imported although its last hint is not a dot", p))
				}
			}
		}
	}
	sort.Strings(out)
	return out
}

// ---- canonical state key: reflection walk over all fields of the File

// Key returns a canonical dump of a value (maps sorted, all unexported fields included).
func Key(v any) string {
	var sb strings.Builder
	dump(&sb, reflect.ValueOf(v), 0)
	return sb.String()
}

func dump(sb *strings.Builder, v reflect.Value, depth int) {
	if depth > 60 {
		sb.WriteString("<deep>")
		return
	}
	switch v.Kind() {
	case reflect.Ptr, reflect.Interface:
		if v.IsNil() {
			sb.WriteString("nil")
			return
		}
		sb.WriteString(v.Elem().Type().String() + "&")
		dump(sb, v.Elem(), depth+1)
	case reflect.Struct:
		sb.WriteString("{")
		for i := 0; i < v.NumField(); i++ {
			sb.WriteString(v.Type().Field(i).Name + ":")
			dump(sb, v.Field(i), depth+1)
			sb.WriteString(";")
		}
		sb.WriteString("}")
	case reflect.Map:
		type kv struct{ k, v string }
		var kvs []kv
		it := v.MapRange()
		for it.Next() {
			var a, b strings.Builder
			dump(&a, it.Key(), depth+1)
			dump(&b, it.Value(), depth+1)
			kvs = append(kvs, kv{a.String(), b.String()})
		}
		sort.Slice(kvs, func(i, j int) bool {
			if kvs[i].k != kvs[j].k {
				return kvs[i].k < kvs[j].k
			}
			return kvs[i].v < kvs[j].v
		})
		sb.WriteString("map[")
		for _, e := range kvs {
			sb.WriteString(e.k + "=" + e.v + ",")
		}
		sb.WriteString("]")
	case reflect.Slice, reflect.Array:
		sb.WriteString("[")
		for i := 0; i < v.Len(); i++ {
			dump(sb, v.Index(i), depth+1)
			sb.WriteString(",")
		}
		sb.WriteString("]")
	case reflect.String:
		sb.WriteString(strconv.Quote(v.String()))
	case reflect.Bool:
		fmt.Fprintf(sb, "%v", v.Bool())
	case reflect.Int, reflect.Int8, reflect.Int16, reflect.Int32, reflect.Int64:
		fmt.Fprintf(sb, "%d", v.Int())
	case reflect.Uint, reflect.Uint8, reflect.Uint16, reflect.Uint32, reflect.Uint64, reflect.Uintptr:
		fmt.Fprintf(sb, "%d", v.Uint())
	case reflect.Float32, reflect.Float64:
		fmt.Fprintf(sb, "%v", v.Float())
	case reflect.Complex64, reflect.Complex128:
		fmt.Fprintf(sb, "%v", v.Complex())
	case reflect.Func:
		sb.WriteString("func")
	default:
		sb.WriteString("?" + v.Kind().String())
	}
}
