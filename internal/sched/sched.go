// Package sched is engine E3: a cooperative scheduler that runs jobs on real goroutines but lets
// exactly one run at a time, handing control back at every scheduling point. Scheduling points
// are the accesses to package-level state that cmd/instr instrumented (plus job start and end).
// Which job runs next is decided through the choice-point explorer, with the canonical order
// "the running job first, then ascending ids"; switching away from a job that could continue
// costs one preemption.
package sched

import (
	"fmt"
	"reflect"

	"verif/internal/env"
	"verif/internal/explore"
)

// Event of a trace.
type Event struct {
	Job  int
	Site string // "" = job finished
}

func (e Event) String() string {
	if e.Site == "" {
		return fmt.Sprintf("J%d:done", e.Job)
	}
	return fmt.Sprintf("J%d@%s", e.Job, e.Site)
}

type thread struct {
	id     int
	resume chan struct{}
	events chan string // site, or "" when done
	done   bool
	out    string
}

// Horizon bounds the number of scheduling steps of one execution (livelock guard).
const Horizon = 100000

// Run executes the jobs under the schedule chosen through c and returns each job's result and
// the trace. ok=false reports a livelock (horizon exceeded).
func Run(c *explore.Ctx, jobs []func() string) (outs []string, trace []Event, ok bool) {
	ths := make([]*thread, len(jobs))
	var cur *thread
	env.SetPointHook(func(site string) {
		t := cur
		if t == nil {
			return // an access outside any job (e.g. harness code): not a scheduling point
		}
		t.events <- site
		<-t.resume
	})
	defer env.SetPointHook(nil)
	for i, j := range jobs {
		t := &thread{id: i, resume: make(chan struct{}), events: make(chan string)}
		ths[i] = t
		j := j
		go func() {
			<-t.resume
			t.out = j()
			t.events <- ""
		}()
	}
	running := -1
	steps := 0
	for {
		var enabled []*thread
		if running >= 0 && !ths[running].done {
			enabled = append(enabled, ths[running])
		}
		for _, t := range ths {
			if !t.done && t.id != running {
				enabled = append(enabled, t)
			}
		}
		if len(enabled) == 0 {
			break
		}
		cost := 0
		if running >= 0 && !ths[running].done {
			cost = 1 // switching away from a job that could continue is a preemption
		}
		t := enabled[c.ChooseCost(len(enabled), cost)]
		cur = t
		t.resume <- struct{}{}
		site := <-t.events
		cur = nil
		trace = append(trace, Event{t.id, site})
		if site == "" {
			t.done = true
			running = -1
		} else {
			running = t.id
		}
		steps++
		if steps > Horizon {
			return nil, trace, false
		}
	}
	outs = make([]string, len(ths))
	for i, t := range ths {
		outs[i] = t.out
	}
	return outs, trace, true
}

// ---- snapshot / restore of package-level variables

// Snapshot holds deep copies of the package-level variables.
type Snapshot struct {
	vals   map[string]reflect.Value
	ptrs   map[string]any
	Opaque []string // variables that cannot be copied (restored only if they started as zero values)
}

// Take snapshots the variables (pointers as given by env.Globals()).
func Take(ptrs map[string]any) *Snapshot {
	s := &Snapshot{vals: map[string]reflect.Value{}, ptrs: ptrs}
	for name, p := range ptrs {
		v := reflect.ValueOf(p).Elem()
		if c, ok := deepCopy(v); ok {
			s.vals[name] = c
		} else if v.IsZero() {
			s.vals[name] = reflect.Zero(v.Type())
		} else {
			s.Opaque = append(s.Opaque, name)
		}
	}
	return s
}

// Restore writes the snapshot back.
func (s *Snapshot) Restore() {
	for name, p := range s.ptrs {
		if c, ok := s.vals[name]; ok {
			v := reflect.ValueOf(p).Elem()
			if cc, ok := deepCopy(c); ok {
				v.Set(cc)
			} else {
				v.Set(reflect.Zero(v.Type()))
			}
		}
	}
}

// Changed lists variables whose current value differs from the snapshot.
func (s *Snapshot) Changed() []string {
	var out []string
	for name, p := range s.ptrs {
		if c, ok := s.vals[name]; ok {
			v := reflect.ValueOf(p).Elem()
			if hasUnexported(v.Type()) {
				if !v.IsZero() {
					out = append(out, name)
				}
				continue
			}
			if !reflect.DeepEqual(v.Interface(), c.Interface()) {
				out = append(out, name)
			}
		}
	}
	return out
}

func hasUnexported(t reflect.Type) bool {
	switch t.Kind() {
	case reflect.Struct:
		for i := 0; i < t.NumField(); i++ {
			if !t.Field(i).IsExported() || hasUnexported(t.Field(i).Type) {
				return true
			}
		}
	case reflect.Ptr, reflect.Slice, reflect.Array:
		return hasUnexported(t.Elem())
	case reflect.Map:
		return hasUnexported(t.Elem()) || hasUnexported(t.Key())
	}
	return false
}

func deepCopy(v reflect.Value) (reflect.Value, bool) {
	switch v.Kind() {
	case reflect.Bool, reflect.Int, reflect.Int8, reflect.Int16, reflect.Int32, reflect.Int64, reflect.Uint, reflect.Uint8, reflect.Uint16,
		reflect.Uint32, reflect.Uint64, reflect.Uintptr, reflect.Float32, reflect.Float64, reflect.Complex64, reflect.Complex128, reflect.String:
		c := reflect.New(v.Type()).Elem()
		c.Set(v)
		return c, true
	case reflect.Slice:
		if v.IsNil() {
			return reflect.Zero(v.Type()), true
		}
		c := reflect.MakeSlice(v.Type(), v.Len(), v.Len())
		for i := 0; i < v.Len(); i++ {
			e, ok := deepCopy(v.Index(i))
			if !ok {
				return reflect.Value{}, false
			}
			c.Index(i).Set(e)
		}
		return c, true
	case reflect.Array:
		c := reflect.New(v.Type()).Elem()
		for i := 0; i < v.Len(); i++ {
			e, ok := deepCopy(v.Index(i))
			if !ok {
				return reflect.Value{}, false
			}
			c.Index(i).Set(e)
		}
		return c, true
	case reflect.Map:
		if v.IsNil() {
			return reflect.Zero(v.Type()), true
		}
		c := reflect.MakeMapWithSize(v.Type(), v.Len())
		it := v.MapRange()
		for it.Next() {
			k, ok1 := deepCopy(it.Key())
			e, ok2 := deepCopy(it.Value())
			if !ok1 || !ok2 {
				return reflect.Value{}, false
			}
			c.SetMapIndex(k, e)
		}
		return c, true
	case reflect.Ptr:
		if v.IsNil() {
			return reflect.Zero(v.Type()), true
		}
		e, ok := deepCopy(v.Elem())
		if !ok {
			return reflect.Value{}, false
		}
		c := reflect.New(v.Type().Elem())
		c.Elem().Set(e)
		return c, true
	case reflect.Struct:
		if hasUnexported(v.Type()) {
			return reflect.Value{}, false
		}
		c := reflect.New(v.Type()).Elem()
		for i := 0; i < v.NumField(); i++ {
			e, ok := deepCopy(v.Field(i))
			if !ok {
				return reflect.Value{}, false
			}
			c.Field(i).Set(e)
		}
		return c, true
	case reflect.Interface:
		if v.IsNil() {
			return reflect.Zero(v.Type()), true
		}
		e, ok := deepCopy(v.Elem())
		if !ok {
			return reflect.Value{}, false
		}
		c := reflect.New(v.Type()).Elem()
		c.Set(e)
		return c, true
	}
	return reflect.Value{}, false
}
