#!/usr/bin/env python3
"""Validate MANIFEST.json and every evidence file against the schemas in /root/.vp (python3-vt has jsonschema)."""
import json, sys, glob, jsonschema
ms = json.load(open('/root/.vp/MANIFEST.schema.json'))
es = json.load(open('/root/.vp/EVIDENCE.schema.json'))
m = json.load(open('/verif/MANIFEST.json'))
jsonschema.validate(m, ms)
ids = [json.loads(l)['id'] for l in open('/verif/properties.jsonl')]
claimed = [c['property_id'] for c in m['checks']]
na = [c['property_id'] for c in m.get('not_applicable', [])]
assert sorted(claimed + na) == sorted(ids), ("every property must be claimed or not_applicable", sorted(set(ids) - set(claimed) - set(na)))
bad = 0
for f in sorted(glob.glob('/verif/evidence/*.json')):
    try:
        e = json.load(open(f))
        jsonschema.validate(e, es)
        lvl = [c for c in m['checks'] if c['property_id'] == e['property_id']]
        if lvl and lvl[0]['level_claimed']['category'] != e['level']:
            print("LEVEL MISMATCH", f); bad += 1
        print("ok", f, e['tier'], e['level'], e['coverage'].get('evaluations'), e['coverage'].get('distinct_nontrivial'), 'exhaustive=%s' % e['coverage'].get('exhaustive'))
    except Exception as ex:
        print("INVALID", f, str(ex)[:300]); bad += 1
sys.exit(1 if bad else 0)
