#!/bin/bash
# run_all.sh [quick|thorough]: runs every claimed check on the current tree and validates the evidence.
cd "$(dirname "$0")"
T=${1:-quick}; rc=0
for id in $(python3 -c "import json;print(' '.join(c['property_id'] for c in json.load(open('MANIFEST.json'))['checks']))"); do
  s=$(date +%s); out=$(./run.sh $id $T 2>&1); r=$?; e=$(date +%s)
  echo "$id exit=$r $((e-s))s $(echo "$out" | tail -1)"
  [ $r -ne 0 ] && { rc=1; echo "$out" | grep -A1 -E 'VIOLATION|FAILURE' | head -6; }
done
python3-vt validate.py >/dev/null || { echo "validation failed"; rc=1; }
exit $rc
