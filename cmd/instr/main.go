// Command instr is engine E4's source instrumenter. It parses and type-checks the CURRENT
// non-test sources of the jennifer package (first argument: its directory), and writes rewritten
// copies plus an overlay.json (second argument: output directory) for
// `go build -tags verif -overlay <out>/overlay.json`. Nothing in the repository is edited.
//
// Two rewrites, both driven by go/types, so they follow any edit of the tree:
//  1. every `for ... := range m` whose operand has map type iterates over verifOrder(m, site):
//     the keys in a canonical base order, permuted as the harness's controller decides;
//  2. before every statement that mentions a package-level variable of the package a call
//     verifPoint(site) is inserted (site = file:line:kind, kind r = read, w = syntactically
//     certain write, u = address taken / method called / passed to a call).
//
// A generated file (build tag verif) defines the hooks and exposes pointers to all package-level
// variables so that the harness can snapshot and restore them between executions.
package main

import (
	"bytes"
	"encoding/json"
	"fmt"
	"go/ast"
	"go/format"
	"go/importer"
	"go/parser"
	"go/token"
	"go/types"
	"os"
	"path/filepath"
	"reflect"
	"sort"
	"strings"
)

func die(format string, a ...any) {
	fmt.Fprintf(os.Stderr, "instr: "+format+"\n", a...)
	os.Exit(2)
}

func main() {
	if len(os.Args) != 3 {
		die("usage: instr <jen source dir> <output dir>")
	}
	src, out := os.Args[1], os.Args[2]
	fset := token.NewFileSet()
	var files []*ast.File
	var names []string
	ents, err := os.ReadDir(src)
	if err != nil {
		die("%v", err)
	}
	for _, e := range ents {
		if strings.HasSuffix(e.Name(), ".go") && !strings.HasSuffix(e.Name(), "_test.go") {
			f, err := parser.ParseFile(fset, filepath.Join(src, e.Name()), nil, parser.ParseComments)
			if err != nil {
				die("%v", err)
			}
			files = append(files, f)
			names = append(names, e.Name())
		}
	}
	info := &types.Info{Types: map[ast.Expr]types.TypeAndValue{}, Uses: map[*ast.Ident]types.Object{}, Defs: map[*ast.Ident]types.Object{}}
	conf := types.Config{Importer: importer.ForCompiler(fset, "source", nil)}
	pkg, err := conf.Check("jen", fset, files, info)
	if err != nil {
		die("type check: %v", err)
	}

	// aliases: local variables that were assigned a package-level variable of reference type, or
	// the address of one (buf := &global; m := globalMap): every later use of the local is an
	// access to the global (a simple intra-procedural, flow-insensitive alias rule)
	aliases := map[types.Object]string{}
	pkgVar := func(id *ast.Ident) (string, bool) {
		v, ok := info.Uses[id].(*types.Var)
		if ok && v.Parent() == pkg.Scope() {
			return v.Name(), true
		}
		return "", false
	}
	aliasSource := func(e ast.Expr) (string, bool) {
		if u, ok := e.(*ast.UnaryExpr); ok && u.Op == token.AND {
			e = u.X
			for {
				switch x := e.(type) {
				case *ast.SelectorExpr:
					e = x.X
					continue
				case *ast.IndexExpr:
					e = x.X
					continue
				}
				break
			}
			if id, ok := e.(*ast.Ident); ok {
				return pkgVar(id)
			}
			return "", false
		}
		if id, ok := e.(*ast.Ident); ok {
			if name, ok := pkgVar(id); ok {
				switch info.Uses[id].Type().Underlying().(type) {
				case *types.Pointer, *types.Map, *types.Slice, *types.Chan:
					return name, true
				}
			}
		}
		return "", false
	}
	for _, f := range files {
		ast.Inspect(f, func(n ast.Node) bool {
			switch x := n.(type) {
			case *ast.AssignStmt:
				if len(x.Lhs) == len(x.Rhs) {
					for i, r := range x.Rhs {
						if name, ok := aliasSource(r); ok {
							if id, ok := x.Lhs[i].(*ast.Ident); ok {
								if obj := info.Defs[id]; obj != nil {
									aliases[obj] = name
								} else if obj := info.Uses[id]; obj != nil {
									if v, ok := obj.(*types.Var); ok && v.Parent() != pkg.Scope() {
										aliases[obj] = name
									}
								}
							}
						}
					}
				}
			case *ast.ValueSpec:
				if len(x.Names) == len(x.Values) {
					for i, r := range x.Values {
						if name, ok := aliasSource(r); ok {
							if obj := info.Defs[x.Names[i]]; obj != nil {
								if v, ok := obj.(*types.Var); ok && v.Parent() != pkg.Scope() {
									aliases[obj] = name
								}
							}
						}
					}
				}
			}
			return true
		})
	}
	globalName := func(id *ast.Ident) (string, bool) {
		if name, ok := pkgVar(id); ok {
			return name, true
		}
		if obj := info.Uses[id]; obj != nil {
			if name, ok := aliases[obj]; ok {
				return name, true
			}
		}
		return "", false
	}
	isGlobal := func(id *ast.Ident) bool {
		_, ok := globalName(id)
		return ok
	}
	rootIdent := func(e ast.Expr) *ast.Ident {
		for {
			switch x := e.(type) {
			case *ast.IndexExpr:
				e = x.X
			case *ast.SelectorExpr:
				e = x.X
			case *ast.StarExpr:
				e = x.X
			case *ast.ParenExpr:
				e = x.X
			case *ast.Ident:
				return x
			default:
				return nil
			}
		}
	}
	// classify the direct uses of globals in a node (not descending into nested statement lists)
	type use struct {
		any, write, unknown bool
		vars                map[string]bool
	}
	var usesGlobal func(n ast.Node) use
	usesGlobal = func(n ast.Node) (u use) {
		if n == nil || reflect.ValueOf(n).IsNil() {
			return
		}
		ast.Inspect(n, func(c ast.Node) bool {
			switch c := c.(type) {
			case *ast.BlockStmt:
				if c != n {
					return false
				}
			case *ast.CaseClause, *ast.CommClause:
				return false
			case *ast.FuncLit:
				// a closure mentioning a global: its body runs later; instrument inside it
				return false
			case *ast.AssignStmt:
				for _, l := range c.Lhs {
					if id := rootIdent(l); id != nil && isGlobal(id) {
						u.write = true
					}
				}
			case *ast.IncDecStmt:
				if id := rootIdent(c.X); id != nil && isGlobal(id) {
					u.write = true
				}
			case *ast.UnaryExpr:
				if c.Op == token.AND {
					if id := rootIdent(c.X); id != nil && isGlobal(id) {
						u.unknown = true
					}
				}
			case *ast.CallExpr:
				if f, ok := c.Fun.(*ast.Ident); ok && f.Name == "delete" && len(c.Args) > 0 {
					if id := rootIdent(c.Args[0]); id != nil && isGlobal(id) {
						u.write = true
					}
				}
				if sel, ok := c.Fun.(*ast.SelectorExpr); ok {
					if id := rootIdent(sel.X); id != nil && isGlobal(id) {
						u.unknown = true // method call on a global
					}
					// a call into the file system: shared state outside the process, a scheduling
					// point under the pseudo-variable <fs> (never counted as a data race)
					if id, ok := sel.X.(*ast.Ident); ok {
						if pn, ok := info.Uses[id].(*types.PkgName); ok {
							if ip := pn.Imported().Path(); ip == "os" || ip == "io/ioutil" {
								u.any = true
								if u.vars == nil {
									u.vars = map[string]bool{}
								}
								u.vars["<fs>"] = true
							}
						}
					}
				}
				for _, a := range c.Args {
					if id, ok := a.(*ast.Ident); ok && isGlobal(id) {
						if f, ok := c.Fun.(*ast.Ident); !ok || (f.Name != "len" && f.Name != "cap") {
							u.unknown = true
						}
					}
				}
			case *ast.Ident:
				if isGlobal(c) {
					u.any = true
					if u.vars == nil {
						u.vars = map[string]bool{}
					}
					gn, _ := globalName(c)
					u.vars[gn] = true
				}
			}
			return true
		})
		return
	}
	merge := func(us ...use) (r use) {
		for _, u := range us {
			r.any, r.write, r.unknown = r.any || u.any, r.write || u.write, r.unknown || u.unknown
			for v := range u.vars {
				if r.vars == nil {
					r.vars = map[string]bool{}
				}
				r.vars[v] = true
			}
		}
		return
	}
	headerUse := func(s ast.Stmt) use {
		switch s := s.(type) {
		case *ast.IfStmt:
			u := merge(usesGlobal(s.Init), usesGlobal(s.Cond))
			for e, ok := s.Else.(*ast.IfStmt); ok; e, ok = e.Else.(*ast.IfStmt) {
				u = merge(u, usesGlobal(e.Init), usesGlobal(e.Cond))
			}
			return u
		case *ast.ForStmt:
			return merge(usesGlobal(s.Init), usesGlobal(s.Cond), usesGlobal(s.Post))
		case *ast.RangeStmt:
			return usesGlobal(s.X)
		case *ast.SwitchStmt:
			return merge(usesGlobal(s.Init), usesGlobal(s.Tag))
		case *ast.TypeSwitchStmt:
			return merge(usesGlobal(s.Init), usesGlobal(s.Assign))
		case *ast.BlockStmt, *ast.SelectStmt, *ast.LabeledStmt:
			return use{}
		}
		return usesGlobal(s)
	}

	type point struct {
		Site string `json:"site"`
		Kind string `json:"kind"`
	}
	var points []point
	var instrList func(list []ast.Stmt) []ast.Stmt
	var instrStmt func(s ast.Stmt)
	var instrExprs func(n ast.Node)
	instrExprs = func(n ast.Node) {
		// function literals anywhere inside a statement
		if n == nil || reflect.ValueOf(n).IsNil() {
			return
		}
		ast.Inspect(n, func(c ast.Node) bool {
			if fl, ok := c.(*ast.FuncLit); ok {
				fl.Body.List = instrList(fl.Body.List)
				return false
			}
			if _, ok := c.(*ast.BlockStmt); ok && c != n {
				return false
			}
			return true
		})
	}
	instrStmt = func(s ast.Stmt) {
		switch s := s.(type) {
		case *ast.BlockStmt:
			s.List = instrList(s.List)
		case *ast.IfStmt:
			instrExprs(s.Init)
			instrExprs(s.Cond)
			instrStmt(s.Body)
			if s.Else != nil {
				instrStmt(s.Else)
			}
		case *ast.ForStmt:
			instrStmt(s.Body)
		case *ast.RangeStmt:
			instrStmt(s.Body)
		case *ast.SwitchStmt:
			instrStmt(s.Body)
		case *ast.TypeSwitchStmt:
			instrStmt(s.Body)
		case *ast.SelectStmt:
			instrStmt(s.Body)
		case *ast.CaseClause:
			s.Body = instrList(s.Body)
		case *ast.CommClause:
			s.Body = instrList(s.Body)
		case *ast.LabeledStmt:
			instrStmt(s.Stmt)
		default:
			instrExprs(s)
		}
	}
	instrList = func(list []ast.Stmt) []ast.Stmt {
		var outl []ast.Stmt
		for _, s := range list {
			if u := headerUse(s); u.any || u.write || u.unknown {
				pos := fset.Position(s.Pos())
				kind := "r"
				if u.unknown {
					kind = "u"
				}
				if u.write {
					kind = "w"
				}
				var vs []string
				for v := range u.vars {
					vs = append(vs, v)
				}
				sort.Strings(vs)
				site := fmt.Sprintf("%s:%d:%s:%s", filepath.Base(pos.Filename), pos.Line, kind, strings.Join(vs, ","))
				points = append(points, point{site, kind})
				outl = append(outl, &ast.ExprStmt{X: &ast.CallExpr{Fun: ast.NewIdent("verifPoint"), Args: []ast.Expr{&ast.BasicLit{Kind: token.STRING, Value: fmt.Sprintf("%q", site)}}}})
			}
			instrStmt(s)
			outl = append(outl, s)
		}
		return outl
	}
	touched := map[int]bool{}
	for i, f := range files {
		before := len(points)
		for _, d := range f.Decls {
			if fd, ok := d.(*ast.FuncDecl); ok && fd.Body != nil {
				fd.Body.List = instrList(fd.Body.List)
			}
		}
		if len(points) != before {
			touched[i] = true
		}
	}

	// map ranges
	var sites []string
	for i, f := range files {
		ast.Inspect(f, func(n ast.Node) bool {
			rs, ok := n.(*ast.RangeStmt)
			if !ok {
				return true
			}
			tv, ok := info.Types[rs.X]
			if !ok {
				return true // already rewritten / synthetic
			}
			if _, ok := tv.Type.Underlying().(*types.Map); !ok {
				return true
			}
			pos := fset.Position(rs.Pos())
			site := fmt.Sprintf("%s:%d", filepath.Base(pos.Filename), pos.Line)
			m := rs.X
			kIdent := ast.NewIdent("verifK")
			var pre []ast.Stmt
			var lhs, rhs []ast.Expr
			if rs.Key != nil {
				lhs = append(lhs, rs.Key)
				rhs = append(rhs, kIdent)
			}
			if rs.Value != nil {
				lhs = append(lhs, rs.Value)
				rhs = append(rhs, &ast.IndexExpr{X: m, Index: kIdent})
			}
			if len(lhs) > 0 {
				if rs.Tok != token.DEFINE && rs.Tok != token.ASSIGN {
					die("%s: unsupported range token", site)
				}
				pre = append(pre, &ast.AssignStmt{Lhs: lhs, Tok: rs.Tok, Rhs: rhs})
				for _, l := range lhs {
					if id, ok := l.(*ast.Ident); ok && id.Name != "_" && rs.Tok == token.DEFINE {
						pre = append(pre, &ast.AssignStmt{Lhs: []ast.Expr{ast.NewIdent("_")}, Tok: token.ASSIGN, Rhs: []ast.Expr{ast.NewIdent(id.Name)}})
					}
				}
			}
			rs.Key = ast.NewIdent("_")
			rs.Value = kIdent
			rs.Tok = token.DEFINE
			rs.X = &ast.CallExpr{Fun: ast.NewIdent("verifOrder"), Args: []ast.Expr{m, &ast.BasicLit{Kind: token.STRING, Value: fmt.Sprintf("%q", site)}}}
			rs.Body.List = append(pre, rs.Body.List...)
			touched[i] = true
			sites = append(sites, site)
			return true
		})
	}

	// package-level variables
	type global struct {
		Name string `json:"name"`
		Type string `json:"type"`
	}
	var globals []global
	for _, n := range pkg.Scope().Names() {
		if v, ok := pkg.Scope().Lookup(n).(*types.Var); ok {
			globals = append(globals, global{n, types.TypeString(v.Type(), func(p *types.Package) string {
				if p == pkg {
					return ""
				}
				return p.Name()
			})})
		}
	}
	sort.Slice(globals, func(i, j int) bool { return globals[i].Name < globals[j].Name })

	// does the package use synchronisation primitives or goroutines? (reported, see DESIGN E3)
	var syncUse []string
	for i, f := range files {
		for _, im := range f.Imports {
			if p := strings.Trim(im.Path.Value, `"`); p == "sync" || p == "sync/atomic" {
				syncUse = append(syncUse, names[i]+" imports "+p)
			}
		}
		ast.Inspect(f, func(n ast.Node) bool {
			if g, ok := n.(*ast.GoStmt); ok {
				syncUse = append(syncUse, fmt.Sprintf("%s:%d go statement", names[i], fset.Position(g.Pos()).Line))
			}
			return true
		})
	}

	if err := os.MkdirAll(out, 0o755); err != nil {
		die("%v", err)
	}
	overlay := map[string]string{}
	for i, f := range files {
		if !touched[i] {
			continue
		}
		var buf bytes.Buffer
		if err := format.Node(&buf, fset, f); err != nil {
			die("printing %s: %v", names[i], err)
		}
		p := filepath.Join(out, names[i])
		if err := os.WriteFile(p, buf.Bytes(), 0o644); err != nil {
			die("%v", err)
		}
		abs, _ := filepath.Abs(filepath.Join(src, names[i]))
		overlay[abs] = p
	}
	var gl strings.Builder
	for _, g := range globals {
		fmt.Fprintf(&gl, "\t\t%q: &%s,\n", g.Name, g.Name)
	}
	extra := strings.Replace(extraSrc, "/*GLOBALS*/", gl.String(), 1)
	p := filepath.Join(out, "verif_hooks.go")
	if err := os.WriteFile(p, []byte(extra), 0o644); err != nil {
		die("%v", err)
	}
	abs, _ := filepath.Abs(filepath.Join(src, "verif_hooks.go"))
	overlay[abs] = p
	b, _ := json.MarshalIndent(map[string]any{"Replace": overlay}, "", " ")
	os.WriteFile(filepath.Join(out, "overlay.json"), b, 0o644)
	rep, _ := json.MarshalIndent(map[string]any{"map_range_sites": sites, "points": points, "globals": globals, "sync_or_goroutines": syncUse}, "", " ")
	os.WriteFile(filepath.Join(out, "report.json"), rep, 0o644)
	fmt.Printf("instr: %d map-range sites rewritten, %d access points inserted, %d package-level variables, %d local aliases of them, sync/goroutine uses: %d\n", len(sites), len(points), len(globals), len(aliases), len(syncUse))
}

const extraSrc = `//go:build verif

package jen

import (
	"fmt"
	"sort"
	"sync"
)

// VerifPointHook is installed by the scheduler: called before every statement that touches a
// package-level variable.
var VerifPointHook func(site string)

func verifPoint(site string) {
	if h := VerifPointHook; h != nil {
		h(site)
	}
}

// VerifPerm is installed by the harness: given a site and n keys it returns a permutation of
// 0..n-1 to apply to the canonical key order (nil = canonical order).
var VerifPerm func(site string, n int) []int

// VerifEnabled reports whether a controller is installed right now (otherwise: native order).
var VerifEnabled func() bool

// VerifRank ranks keys that have no natural order (Code values); installed by the harness.
var VerifRank func(key interface{}) (int, bool)

// VerifUncontrolled counts, per site, range executions whose keys could not be ranked (native
// order used).
var VerifUncontrolled = map[string]int{}
var verifMu sync.Mutex

// VerifGlobals returns pointers to every package-level variable of the package.
func VerifGlobals() map[string]interface{} {
	return map[string]interface{}{
/*GLOBALS*/	}
}

func verifOrder[M ~map[K]V, K comparable, V any](m M, site string) []K {
	keys := make([]K, 0, len(m))
	for k := range m {
		keys = append(keys, k)
	}
	if VerifPerm == nil || len(keys) < 2 || (VerifEnabled != nil && !VerifEnabled()) {
		return keys
	}
	ranks := make(map[K]string, len(keys))
	for _, k := range keys {
		if s, ok := interface{}(k).(string); ok {
			ranks[k] = "s" + s
			continue
		}
		if VerifRank != nil {
			if r, ok := VerifRank(k); ok {
				ranks[k] = fmt.Sprintf("r%09d", r)
				continue
			}
		}
		verifMu.Lock()
		VerifUncontrolled[site]++
		verifMu.Unlock()
		return keys
	}
	sort.Slice(keys, func(i, j int) bool { return ranks[keys[i]] < ranks[keys[j]] })
	p := VerifPerm(site, len(keys))
	if p == nil {
		return keys
	}
	out := make([]K, len(keys))
	for i, j := range p {
		out[i] = keys[j]
	}
	return out
}
`
