// Command verif runs the property checks: `verif check <ID> [quick|thorough]`,
// `verif replay <file>`, `verif list`.
package main

import (
	"fmt"
	"os"
	"runtime/debug"
	"strconv"
	"time"

	"verif/checks"
	"verif/internal/ev"
)

func usage() {
	fmt.Fprintln(os.Stderr, "usage: verif check <ID> [quick|thorough] | verif replay <file> | verif list | verif variant <ID>")
	os.Exit(2)
}

func main() {
	if len(os.Args) < 2 {
		usage()
	}
	// the checks allocate many short-lived objects (files, syntax trees); collect less often
	if os.Getenv("GOGC") == "" {
		debug.SetGCPercent(800)
	}
	// a tree under test may leak or grow buffers without bound: collect aggressively near the limit
	debug.SetMemoryLimit(16 << 30)
	switch os.Args[1] {
	case "list":
		for _, id := range checks.IDs() {
			fmt.Println(id, checks.Get(id).Variant, checks.Get(id).Level)
		}
	case "native":
		if len(os.Args) < 3 {
			usage()
		}
		checks.C07Native(os.Args[2])
	case "c07shard":
		if len(os.Args) < 4 {
			usage()
		}
		dev, _ := strconv.Atoi(os.Args[3])
		checks.C07Shard(os.Args[2], dev)
	case "c16shard":
		if len(os.Args) < 5 {
			usage()
		}
		sh, _ := strconv.Atoi(os.Args[3])
		n, _ := strconv.Atoi(os.Args[4])
		checks.C16Shard(os.Args[2], sh, n)
	case "c09block":
		checks.C09Block()
	case "c09solo":
		checks.C09Solo(os.Args[2:]...)
	case "c09race":
		n := 50
		if len(os.Args) > 2 {
			n, _ = strconv.Atoi(os.Args[2])
		}
		checks.C09Race(n)
	case "variant":
		if len(os.Args) < 3 || checks.Get(os.Args[2]) == nil {
			usage()
		}
		fmt.Println(checks.Get(os.Args[2]).Variant)
	case "check":
		if len(os.Args) < 3 {
			usage()
		}
		c := checks.Get(os.Args[2])
		if c == nil {
			fmt.Fprintln(os.Stderr, "no such check:", os.Args[2])
			os.Exit(2)
		}
		tier := ev.Quick
		if t := os.Getenv("VERIF_TIER"); t == "thorough" {
			tier = ev.Thorough
		}
		if len(os.Args) > 3 {
			switch os.Args[3] {
			case "quick":
				tier = ev.Quick
			case "thorough":
				tier = ev.Thorough
			default:
				usage()
			}
		}
		r := ev.New(c.ID, c.Level, tier)
		r.Watch(4 * time.Minute)
		func() {
			// a panic raised inside jennifer while the check builds or renders code on its main
			// goroutine, outside the explorers' own guards, ends the check with that violation
			defer func() {
				if p := recover(); p != nil {
					stack := debug.Stack()
					if !r.PanicHook("the check's main goroutine", p, stack) {
						fmt.Fprintf(os.Stderr, "HARNESS FAILURE: panic in check %s: %v\n%s\n", c.ID, p, stack)
						os.Exit(2)
					}
					r.NotExhaustive("the check stopped at a panic raised inside jennifer")
				}
			}()
			c.Run(r)
		}()
		os.Exit(r.Finish())
	case "replay":
		if len(os.Args) < 3 {
			usage()
		}
		rf, err := ev.ReadReplay(os.Args[2])
		if err != nil {
			fmt.Fprintln(os.Stderr, err)
			os.Exit(2)
		}
		c := checks.Get(rf.Property)
		if c == nil || c.Replay == nil {
			fmt.Fprintln(os.Stderr, "no replay function for", rf.Property)
			os.Exit(2)
		}
		holds, detail := c.Replay(rf.Case)
		fmt.Println(detail)
		if !holds {
			fmt.Printf("VIOLATION property=%s replay=%s\n", rf.Property, os.Args[2])
			os.Exit(1)
		}
		fmt.Println("property holds on this case")
	default:
		usage()
	}
}
