#!/bin/bash
# replay.sh <replay-file>: re-executes one recorded case against the current tree, without the explorer.
set -u
HERE=$(cd "$(dirname "$0")" && pwd); cd "$HERE"
export GOFLAGS=-mod=mod GOPROXY=off GOSUMDB=off GOTOOLCHAIN=local VERIF_ROOT="$HERE"
SCR=$(mktemp -d "${TMPDIR:-/tmp}/verif-replay.XXXXXX") || exit 2
trap 'rm -rf "$SCR"' EXIT
REPO=${JEN_REPO:-/repo}
sed "s#=> /repo\$#=> $REPO#" go.mod > "$SCR/go.mod"
ID=$(python3 -c "import json,sys;print(json.load(open(sys.argv[1]))['property'])" "$1") || exit 2
go build -modfile="$SCR/go.mod" -o "$SCR/verif" ./cmd/verif || exit 2
BIN="$SCR/verif"
if [ "$("$BIN" variant "$ID")" = instr ]; then
  go run -modfile="$SCR/go.mod" ./cmd/instr "$REPO/jen" "$SCR/instr" >/dev/null || exit 2
  go build -modfile="$SCR/go.mod" -tags verif -overlay "$SCR/instr/overlay.json" -o "$SCR/verif-instr" ./cmd/verif || exit 2
  BIN="$SCR/verif-instr"
fi
"$BIN" replay "$1"
