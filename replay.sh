#!/bin/bash
# replay.sh <replay-file>: re-executes one recorded case against the current tree, without the explorer.
set -u
HERE=$(cd "$(dirname "$0")" && pwd); cd "$HERE"
export GOFLAGS=-mod=mod GOPROXY=off GOSUMDB=off GOTOOLCHAIN=local VERIF_ROOT="$HERE"
SCR=$(mktemp -d "${TMPDIR:-/tmp}/verif-replay.XXXXXX") || exit 2
trap 'rm -rf "$SCR"' EXIT
REPO=${JEN_REPO:-/repo}
sed "s#=> /repo\$#=> $REPO#" go.mod > "$SCR/go.mod"
ID=$(python3 -c "import json,sys;print(json.load(open(sys.argv[1]))['property'])" "$1") || exit 2
go run -modfile="$SCR/go.mod" ./cmd/genapi "$REPO/jen" "$SCR/zz_api_gen.go" || exit 2
printf '{"Replace": {"%s": "%s"}}\n' "$HERE/checks/zz_api_gen.go" "$SCR/zz_api_gen.go" > "$SCR/overlay-plain.json"
go build -modfile="$SCR/go.mod" -overlay "$SCR/overlay-plain.json" -o "$SCR/verif" ./cmd/verif || exit 2
BIN="$SCR/verif"
if [ "$("$BIN" variant "$ID")" = instr ]; then
  go run -modfile="$SCR/go.mod" ./cmd/instr "$REPO/jen" "$SCR/instr" >/dev/null || exit 2
  python3 - "$SCR/instr/overlay.json" "$SCR/overlay-plain.json" "$SCR/overlay-instr.json" <<'PY' || exit 2
import json, sys
a = json.load(open(sys.argv[1])); b = json.load(open(sys.argv[2]))
a["Replace"].update(b["Replace"]); json.dump(a, open(sys.argv[3], "w"))
PY
  go build -modfile="$SCR/go.mod" -tags verif -overlay "$SCR/overlay-instr.json" -o "$SCR/verif-instr" ./cmd/verif || exit 2
  BIN="$SCR/verif-instr"
fi
export VERIF_SELF="$BIN"
"$BIN" replay "$1"
