#!/bin/bash
# Builds every variant once so that the Go build cache is warm (offline, from files on disk only).
set -u
cd "$(dirname "$0")"
export GOFLAGS=-mod=mod GOPROXY=off GOSUMDB=off GOTOOLCHAIN=local
SCR=$(mktemp -d "${TMPDIR:-/tmp}/verif-setup.XXXXXX") || exit 2
trap 'rm -rf "$SCR"' EXIT
go build -o "$SCR/verif" ./cmd/verif || exit 2
go build -o "$SCR/genapi" ./cmd/genapi || exit 2
if [ -d cmd/instr ]; then
  go run ./cmd/instr /repo/jen "$SCR/instr" >/dev/null || exit 2
  go build -tags verif -overlay "$SCR/instr/overlay.json" -o "$SCR/verif-instr" ./cmd/verif || exit 2
  go build -race -o "$SCR/verif-race" ./cmd/verif || exit 2
fi
echo setup ok
